"""Path-sensitive pairing analysis for the containment / connection relations (C01 O2/O5)
and must-hold guard facts.

State = set of worlds; a world = (facts, rel) where
  facts  frozenset of atoms established by asserts / branch conditions on this path
  rel    tuple over RELATIONS of (c, b):
           c in 0 + - ~ p x   (container untouched / element added / removed / rebuilt by a
                               filter / permuted / conflicting or arbitrary assignment)
           b in 0 + - x       (back-pointer untouched / set to the container / cleared / conflict)
A branch whose condition contradicts a fact of the world is infeasible (this is what handles
correlated branches).  Valid combinations at the normal exit of a public mutator:
  (0,0) (+,+) (-,-) (~,0) (~,-) (p,0)
"""
import ast
import re

from .core import AnalysisError, norm, short, walk_local, parent_chain, copy_tree
from .cfg import forward, Branch, node_exprs
from .effects import root_and_depth
from .kinds import RELATIONS
from .typestate import classify_set, is_clone_family

O2_RELATIONS = [r for r in RELATIONS if r.name != "reference"]
REL_INDEX = {}
for i, r in enumerate(O2_RELATIONS):
    REL_INDEX[(r.ccls, r.cfield)] = (i, "c")
    REL_INDEX[(r.ecls, r.efield)] = (i, "b")
# Bundle._definition backs two relations (ports, cables): resolved by the receiver's kind at the write
VALID_EXIT = {("0", "0"), ("+", "+"), ("-", "-"), ("~", "0"), ("~", "-"), ("p", "0")}
MAX_WORLDS = 48

NEG = {"is": "isnot", "isnot": "is", "eq": "ne", "ne": "eq", "in": "notin", "notin": "in",
       "truthy": "falsy", "falsy": "truthy", "isinstance": "notisinstance", "notisinstance": "isinstance"}


def atom(op, *args):
    return op + "(" + ",".join(args) + ")"


def negate(a):
    op, rest = a.split("(", 1)
    return NEG[op] + "(" + rest if op in NEG else None


def facts_of(test, pol=True):
    """atoms that hold when `test` evaluates to `pol` (conjunctive part only)"""
    alts = alts_of(test, pol)
    if len(alts) == 1:
        return alts[0]
    out = set(alts[0])
    for a in alts[1:]:
        out &= a
    return out


def alts_of(test, pol=True, cap=8):
    """disjunctive normal form: a list of atom sets, one of which holds when `test` is `pol`"""
    if isinstance(test, ast.UnaryOp) and isinstance(test.op, ast.Not):
        return alts_of(test.operand, not pol, cap)
    if isinstance(test, ast.BoolOp):
        conj = isinstance(test.op, ast.And)
        if conj == pol:
            res = [set()]
            for v in test.values:
                nxt = []
                for a in res:
                    for b in alts_of(v, pol, cap):
                        nxt.append(a | b)
                res = nxt
                if len(res) > cap:
                    return [set()]
            return res
        # (c1 and c2) false  ==  not c1  or  (c1 and not c2) ...   (dually for `or` true)
        res = []
        prefix = [set()]
        for v in test.values:
            for a in prefix:
                for b in alts_of(v, pol, cap):
                    res.append(a | b)
            nxt = []
            for a in prefix:
                for b in alts_of(v, not pol, cap):
                    nxt.append(a | b)
            prefix = nxt
            if len(res) > cap or len(prefix) > cap:
                return [set()]
        return res or [set()]
    return [_atoms(test, pol)]


def _atoms(test, pol):
    test = _alpha(test)
    if isinstance(test, ast.Compare) and len(test.ops) == 1:
        l, r = norm(test.left), norm(test.comparators[0])
        op = test.ops[0]
        name = {ast.Is: "is", ast.IsNot: "isnot", ast.Eq: "eq", ast.NotEq: "ne", ast.In: "in", ast.NotIn: "notin"}.get(type(op))
        if name is None:
            return {atom("truthy" if pol else "falsy", norm(test))}
        if name in ("is", "isnot", "eq", "ne"):
            if r == "None" and name in ("eq", "ne"):
                name = "is" if name == "eq" else "isnot"
            if l == "None" or (l > r and r != "None"):
                l, r = r, l
            if l == "None":
                l, r = r, l
        if not pol:
            name = NEG[name]
        out = {atom(name, l, r)}
        # type(x) is K (or == K) implies isinstance(x, K)
        if name in ("is", "eq"):
            for a_, b_ in ((test.left, test.comparators[0]), (test.comparators[0], test.left)):
                if isinstance(a_, ast.Call) and isinstance(a_.func, ast.Name) and a_.func.id == "type" and len(a_.args) == 1 and isinstance(b_, (ast.Name, ast.Attribute)):
                    out.add(atom("isinstance", norm(a_.args[0]), norm(b_)))
        return out
    if isinstance(test, ast.Call) and norm(test.func) == "isinstance" and len(test.args) == 2:
        return {atom("isinstance" if pol else "notisinstance", norm(test.args[0]), norm(test.args[1]))}
    out = {atom("truthy" if pol else "falsy", norm(test))}
    # truthiness of an object reference doubles as a None test
    if isinstance(test, (ast.Name, ast.Attribute)) and pol:
        out.add(atom("isnot", norm(test), "None"))
    return out


def _mentions(a, name):
    return re.search(r"(?<![\w.])%s(?![\w])" % re.escape(name), a) is not None


def kill_name(facts, name):
    return frozenset(a for a in facts if not _mentions(a, name))


def subst_name(facts, old, new):
    out = set()
    for a in facts:
        if _mentions(a, old):
            out.add(re.sub(r"(?<![\w.])%s(?![\w])" % re.escape(old), new, a))
    return out


def kill_attr(facts, recv, attr):
    """a store to recv.attr: facts about recv.attr now describe the *old* value — they are kept
    under the name old:recv.attr (M3 needs to know whether the old reference was None)"""
    a0 = attr.lstrip("_")
    pat = re.compile(r"(?<![\w.:])%s\._?%s(?![\w])" % (re.escape(recv), re.escape(a0)))
    out = set()
    for a in facts:
        if pat.search(a):
            if not a.startswith("def("):
                out.add(pat.sub("old:%s.%s" % (recv, a0), a))
        else:
            out.add(a)
    return frozenset(out)


def apply_op(cur, op):
    if op is None or op == "0":
        return cur
    if cur == "0":
        return op
    if cur == op:
        return cur
    return "x"


BP_NAMES = sorted({r.efield.lstrip("_") for r in RELATIONS} | {"wire"})


def _mk(name, l, r):
    """the atom _atoms() would build for `l <name> r`"""
    if name in ("is", "isnot", "eq", "ne"):
        if r == "None" and name in ("eq", "ne"):
            name = "is" if name == "eq" else "isnot"
        if l == "None" or (l > r and r != "None"):
            l, r = r, l
        if l == "None":
            l, r = r, l
    return atom(name, l, r)


def _parse_atom(a):
    m = re.match(r"(is|isnot|eq|ne)\((.*)\)$", a)
    if not m:
        return None
    body = m.group(2)
    depth = 0
    for i, ch in enumerate(body):
        if ch in "([":
            depth += 1
        elif ch in ")]":
            depth -= 1
        elif ch == "," and depth == 0:
            return m.group(1), body[:i], body[i + 1:]
    return None


def callee_bp_guards(fe, params):
    """own checks of a function that constrain the back pointer of one of its parameters:
    [(op, param index, bp name, other side: 'self' | 'None')] — the conjunctive part of each assert"""
    out = []
    for evs in fe.by_node.values():
        for ev in evs:
            if ev.kind != "check" or ev.cond is None:
                continue
            for a in facts_of(ev.cond, True):
                pa = _parse_atom(a)
                if pa is None:
                    continue
                op, l, r = pa
                for x, y in ((l, r), (r, l)):
                    m = re.match(r"(\w+)\._?(\w+)$", x)
                    if m and m.group(1) in params[1:] and m.group(2) in BP_NAMES and y in ("self", "None"):
                        out.append((op, params.index(m.group(1)), m.group(2), y, short(ev.cond, 50)))
    return out


class RelEvent:
    __slots__ = ("rel", "side", "op", "elem", "cont", "ev", "via", "origin_public")

    def __init__(self, rel, side, op, elem, cont, ev, via=None):
        self.rel, self.side, self.op, self.elem, self.cont, self.ev, self.via = rel, side, op, elem, cont, ev, via
        self.origin_public = False


class Pairing:
    """per-function analysis + summaries"""

    def __init__(self, M):
        self.M = M
        self.P = M.P
        self.funcs = {f.key: f for f in M.ir_funcs()}
        # a private module-level function of spydrnet/ir (possibly in a sibling module) is code of the methods that call it: those methods
        # are analysed with it spliced in
        modfuns = {f.name for f in self.funcs.values() if f.cls is None and f.name.startswith("_") and not f.name.startswith("__")}
        from .inline import inlined_view, calls_iterating_helper
        for k, f in list(self.funcs.items()):
            if calls_iterating_helper(self.P, f):
                self.funcs[k] = inlined_view(self.P, f)
        if modfuns:
            from .inline import inlined_view
            for k, f in list(self.funcs.items()):
                if f.cls is not None and any(isinstance(c, ast.Call) and isinstance(c.func, ast.Name) and c.func.id in modfuns for c in walk_local(f.node)):
                    self.funcs[k] = inlined_view(self.P, f)
        self.summary = {}  # func key -> {"rel": set of rel-tuples at exit, "events": [(rel, side, op, elem_param, cont_param)]}
        self.results = {}  # func key -> dict(worlds at exit, rel events with facts)
        self._cache = {}
        self._run()

    # -- relation events of a write ---------------------------------------------------------
    def rel_events(self, f, fe, ev):
        if ev.cls is None:
            return []
        key = (ev.cls, ev.field)
        hit = REL_INDEX.get(key)
        if ev.field == "_definition" and ev.cls == "Bundle":
            # which relation depends on whether the receiver is a port or a cable
            from .kinds import kinds_of
            env = None
            for n in fe.cfg.nodes:
                if ev in fe.by_node[n.id]:
                    env = fe.ty.env_at(n)
                    break
            ks = kinds_of(fe.ty.type_of(ev.recv, env)) if env is not None else None
            if ks == frozenset(["Port"]):
                hit = (REL_INDEX[("Definition", "_ports")][0], "b")
            elif ks == frozenset(["Cable"]):
                hit = (REL_INDEX[("Definition", "_cables")][0], "b")
            else:
                # unknown bundle kind: name-based fallback on the receiver variable
                t = norm(ev.recv)
                if "port" in t:
                    hit = (REL_INDEX[("Definition", "_ports")][0], "b")
                elif "cable" in t:
                    hit = (REL_INDEX[("Definition", "_cables")][0], "b")
                else:
                    return []
        if hit is None:
            return []
        i, side = hit
        if side == "c":
            op = {"append": "+", "insert": "+", "add": "+", "setitem": "+", "extend": "+", "update": "+",
                  "remove": "-", "discard": "-", "pop": "-", "delitem": "-", "del": "x", "clear": "x", "aug": "x",
                  "sort": "p", "reverse": "p", "reorder": "p"}.get(ev.op)
            if ev.op == "set":
                c = classify_set(f.node, ev)
                op = {"filter": "~", "permute": "p"}.get(c, "x")
            if op is None:
                op = "x"
            return [RelEvent(i, "c", op, norm(ev.elem) if ev.elem is not None else None, norm(ev.recv), ev)]
        else:
            if ev.op != "set":
                return [RelEvent(i, "b", "x", None, norm(ev.recv), ev)]
            v = ev.value
            if isinstance(v, ast.Constant) and v.value is None:
                op = "-"
            else:
                op = "+"
            return [RelEvent(i, "b", op, norm(ev.recv), norm(v) if v is not None else None, ev)]

    def _unentailed(self, fe, params, is_init, ev, t, amap, facts, node):
        """guards of the callee `t` on the back pointer of a parameter that the caller's facts at this call do not imply"""
        M = self.M
        tfe = M.events(t)
        key = "guards:" + t.key
        gs = self._cache.get(key)
        if gs is None:
            gs = self._cache[key] = callee_bp_guards(tfe, t.params)
        out = []
        for op, pi, bp, other, text in gs:
            arg = amap.get(pi)
            if arg is None:
                continue
            root, depth = root_and_depth(arg)
            if M.rootspec(fe, params, root, depth, is_init) == "fresh":
                continue
            a = norm(arg)
            recv = norm(amap[0]) if amap.get(0) is not None else "self"
            o = recv if other == "self" else "None"
            want = {_mk(op, "%s.%s" % (a, bp), o)}
            if op in ("is", "eq"):
                want |= {_mk("is", "%s.%s" % (a, bp), o), _mk("eq", "%s.%s" % (a, bp), o)}
            if op in ("isnot", "ne"):
                want |= {_mk("isnot", "%s.%s" % (a, bp), o), _mk("ne", "%s.%s" % (a, bp), o)}
            if want & facts:
                continue
            # the receiver was read from the argument's own back pointer: `w = p.wire ... w.disconnect_pin(p)`
            if other == "self" and op in ("is", "eq") and (atom("def", recv, "%s.%s" % (a, bp)) in facts or atom("def", recv, "%s._%s" % (a, bp)) in facts):
                continue
            # a universally quantified assert over the collection this call iterates: all(<...x.bp == self...> for x in S)
            ok = False
            for fct in facts:
                if not fct.startswith("truthy(all("):
                    continue
                try:
                    e = ast.parse(fct[len("truthy("):-1], mode="eval").body
                except SyntaxError:
                    continue
                if not (isinstance(e, ast.Call) and e.args and isinstance(e.args[0], (ast.GeneratorExp, ast.ListComp)) and len(e.args[0].generators) == 1):
                    continue
                g = e.args[0].generators[0]
                S, v = norm(g.iter), norm(g.target)
                loop = None
                for p_ in parent_chain(ev.node):
                    if isinstance(p_, ast.For) and norm(p_.iter) == S and norm(p_.target) == a:
                        loop = p_
                if loop is None:
                    continue
                inst = subst_name(facts_of(e.args[0].elt, True), v, a) | {x for x in facts_of(e.args[0].elt, True) if not _mentions(x, v)}
                renorm = set()
                for x in inst:
                    pa = _parse_atom(x)
                    renorm.add(_mk(*pa) if pa else x)
                if want & renorm:
                    ok = True
            if ok:
                continue
            out.append("%s requires `%s` (%s.%s %s %s)" % (t.qualname, text, a, bp, {"is": "is", "eq": "==", "isnot": "is not", "ne": "!="}[op], o))
        return out

    # -- driver --------------------------------------------------------------------------------
    def _run(self):
        for k in self.funcs:
            self.summary[k] = {"rel": frozenset(), "events": frozenset(), "tokens": frozenset()}  # bottom
        for rounds in range(1, 30):
            changed = False
            for k, f in self.funcs.items():
                before = (self.summary[k]["rel"], self.summary[k]["events"], self.summary[k]["tokens"])
                self._analyse(f)
                if (self.summary[k]["rel"], self.summary[k]["events"], self.summary[k]["tokens"]) != before:
                    changed = True
            if not changed:
                break
        else:
            raise AnalysisError("pairing summaries did not converge")
        self.rounds = rounds

    def analyse_view(self, g):
        """results for a view of a function (helpers spliced in) without disturbing what is stored for the function itself"""
        saved = (self.results.get(g.key), self.summary.get(g.key))
        self.M._events.pop(g.key, None)
        self._analyse(g)
        res = self.results[g.key]
        self.results[g.key], self.summary[g.key] = saved
        self.M._events.pop(g.key, None)
        return res

    def _analyse(self, f):
        """worlds are (facts, rel, tokens):
        tokens = frozenset of effects performed on this path:
          "W:<Cls>.<field>.<op>:<recv>:<elem or value>"   a shared write (direct)
          "V:<callee qualname>:<Cls>.<field>.<op>"          a shared write inside a callee
          "L:<iter text>"                                    a for-loop over <iter> ran to completion
          "K:<callee qualname>"                              a call to an IR function returned"""
        M = self.M
        fe = M.events(f)
        params = f.params
        is_init = f.name == "__init__"
        zero = tuple(("0", "0") for _ in O2_RELATIONS)
        recorded = []  # (RelEvent, facts, tokens) at that point
        refusals = []  # (check / refusable notify event, relation state) reached with a relation half-updated
        refusal_tokens = []  # (refusal event, shared writes already performed on that path)
        cascade = []  # (call event, callee, unentailed guard text, shared writes already performed)
        sum_events = set()
        from .typestate import is_public_entry as _pub
        pub = _pub(f)
        sum_tokens = set()

        def fresh_recv(ev):
            root, depth = root_and_depth(ev.recv)
            return M.rootspec(fe, params, root, depth, is_init) == "fresh"

        def member_fact(loop):
            """for x in [list(] self.<container> [)]: the relation invariant (C01) gives x.<back pointer> is self when the loop is
            entered; recorded as a fact on x (later writes to the back pointer replace it like any other fact)"""
            if not isinstance(loop.target, ast.Name) or f.cls is None:
                return None
            it = loop.iter
            while isinstance(it, ast.Call) and ((isinstance(it.func, ast.Name) and it.func.id in ("list", "tuple", "reversed", "sorted") and len(it.args) == 1)
                                                or (isinstance(it.func, ast.Attribute) and it.func.attr == "copy" and not it.args)):
                it = it.args[0] if isinstance(it.func, ast.Name) else it.func.value
            if not (isinstance(it, ast.Attribute) and isinstance(it.value, ast.Name) and it.value.id == "self"):
                return None
            for r_ in O2_RELATIONS:
                if r_.cfield.lstrip("_") == it.attr.lstrip("_") and (r_.ccls == f.cls.name or r_.ccls in getattr(f.cls, "base_names", [])):
                    x = loop.target.id
                    return frozenset({_mk("is", "%s.%s" % (x, r_.efield.lstrip("_")), "self"), _mk("is", "%s.%s" % (x, r_.efield), "self")})
            return None

        def step_world(n, world, record):
            facts, rel, toks = world
            outs = [(facts, rel, toks)]
            for ev in fe.by_node[n.id]:
                if ev.kind in ("check", "notify") and record is not None:
                    if ev.kind == "check" or ev.event in M.refusable:
                        for (fa, rl, tk) in outs:
                            if any(cb != ("0", "0") for cb in rl):
                                refusals.append((ev, rl))
                            if any(t.startswith(("W:", "V:")) for t in tk):
                                refusal_tokens.append((ev, tk))
                if ev.kind == "write":
                    fr = fresh_recv(ev)
                    res = [] if fr else self.rel_events(f, fe, ev)
                    tok = "W:%s.%s.%s:%s:%s" % (ev.cls, ev.field, ev.op, norm(ev.recv),
                                                norm(ev.elem) if ev.elem is not None else (norm(ev.value) if ev.value is not None else ""))
                    if not fr:
                        sum_tokens.add("%s.%s.%s" % (ev.cls, ev.field, ev.op))
                    new = []
                    for (fa, rl, tk) in outs:
                        for re_ in res:
                            if record is not None:
                                record.append((re_, fa, tk))
                            rl = list(rl)
                            c, b = rl[re_.rel]
                            if re_.side == "c":
                                c = apply_op(c, re_.op)
                            else:
                                b = apply_op(b, re_.op)
                            rl[re_.rel] = (c, b)
                            rl = tuple(rl)
                            sum_events.add((re_.rel, re_.side, re_.op,
                                            params.index(re_.elem) if re_.elem in params else -1,
                                            params.index(re_.cont) if re_.cont in params else -1, pub))
                        fa = kill_attr(fa, norm(ev.recv), ev.field)
                        extra = set()
                        if ev.cls == "Definition" and ev.field == "_references":
                            # order of insertion / removal matters when the old and the new definition are the same object
                            if ev.op in ("remove", "discard") and any(t.startswith("W:Definition._references.add:") for t in tk):
                                extra.add("O:add-before-remove")
                            if ev.op == "add" and any(t.startswith("W:Definition._references.remove:") or t.startswith("W:Definition._references.discard:") for t in tk):
                                extra.add("O:remove-before-add")
                        new.append((fa, rl, tk | {tok} | extra))
                    outs = new
                elif ev.kind == "call":
                    for t in ev.targets or []:
                        cs = self.summary.get(t.key)
                        if cs is None:
                            continue
                        amap = M.argmap(ev, t)
                        if record is not None and not ev.ctor and not is_init and t.key in self.funcs:
                            for (fa, rl, tk) in outs:
                                dirty = [x for x in tk if x.startswith(("W:", "V:"))]
                                if dirty:
                                    for miss in self._unentailed(fe, params, is_init, ev, t, amap, fa, n):
                                        cascade.append((ev, t, miss, dirty))
                        for (ri, side, op, ep, cp, opub) in cs["events"]:
                            spec_e = norm(amap[ep]) if ep in amap and amap[ep] is not None else None
                            spec_c = norm(amap[cp]) if cp in amap and amap[cp] is not None else None
                            if ev.ctor and (cp == 0 or ep == 0):
                                continue  # the constructor's self is fresh
                            tgt = amap.get(cp if side == "c" else ep)
                            if tgt is not None:
                                root, depth = root_and_depth(tgt)
                                if M.rootspec(fe, params, root, depth, is_init) == "fresh":
                                    continue
                            re_ = RelEvent(ri, side, op, spec_e, spec_c, ev, via=t.qualname)
                            re_.origin_public = opub
                            if record is not None:
                                for (fa, rl, tk) in outs:
                                    record.append((re_, fa, tk))
                            sum_events.add((ri, side, op,
                                            params.index(spec_e) if spec_e in params else -1,
                                            params.index(spec_c) if spec_c in params else -1, opub))
                        if not ev.ctor:
                            sum_tokens.update(cs["tokens"])
                        # what the callee does to the back pointer of an argument: facts about it no longer describe the current value;
                        # when every normal return of the callee leaves it cleared / set, that is a fact from here on
                        kills, adds = [], set()
                        if not ev.ctor and len(ev.targets or []) == 1:
                            for ri2 in {e_[0] for e_ in cs["events"] if e_[1] == "b"}:
                                bevs = [e_ for e_ in cs["events"] if e_[0] == ri2 and e_[1] == "b"]
                                bp_ = O2_RELATIONS[ri2].efield
                                for (_, _, op2, ep2, cp2, _) in bevs:
                                    if ep2 in amap and amap[ep2] is not None:
                                        kills.append((norm(amap[ep2]), bp_))
                                if len(bevs) == 1 and bevs[0][2] in "+-" and cs["rel"] and all(crel[ri2][1] == bevs[0][2] for crel in cs["rel"]):
                                    op2, ep2, cp2 = bevs[0][2], bevs[0][3], bevs[0][4]
                                    if ep2 in amap and amap[ep2] is not None:
                                        val = "None" if op2 == "-" else (norm(amap[cp2]) if cp2 in amap and amap[cp2] is not None else None)
                                        if val is not None:
                                            a_ = norm(amap[ep2])
                                            adds.add(_mk("is", "%s.%s" % (a_, bp_.lstrip("_")), val))
                                            adds.add(_mk("is", "%s.%s" % (a_, bp_), val))
                        new = set()
                        for (fa, rl, tk) in outs:
                            for (a_, bp_) in kills:
                                fa = kill_attr(fa, a_, bp_)
                            if adds:
                                fa = fa | frozenset(adds)
                            tk2 = tk | {"K:" + t.qualname}
                            if not ev.ctor:
                                tk2 = tk2 | frozenset("V:%s:%s" % (t.qualname, w) for w in cs["tokens"])
                            for crel in cs["rel"]:
                                rl2 = list(rl)
                                if not ev.ctor:
                                    for i2, (c1, b1) in enumerate(crel):
                                        if (c1, b1) != ("0", "0"):
                                            c0, b0 = rl2[i2]
                                            rl2[i2] = (apply_op(c0, c1), apply_op(b0, b1))
                                new.add((fa, tuple(rl2), tk2))
                        outs = list(new)
            return outs

        def transfer(n, state, record=None):
            outs = set()
            a = n.ast
            for world in state:
                for (fa, rl, tk) in step_world(n, world, record):
                    if n.kind == "stmt" and isinstance(a, ast.Assign):
                        for t in a.targets:
                            for nm in ast.walk(t):
                                if isinstance(nm, ast.Name) and isinstance(nm.ctx, ast.Store):
                                    extra = set()
                                    if isinstance(a.value, ast.Name) and isinstance(t, ast.Name):
                                        extra = subst_name(fa, a.value.id, nm.id)
                                    fa = kill_name(fa, nm.id) | frozenset(extra)
                                    if isinstance(t, ast.Name) and not isinstance(a.value, ast.Name):
                                        fa = fa | {atom("def", nm.id, norm(_alpha(a.value)))}
                    elif n.kind == "stmt" and isinstance(a, ast.AugAssign) and isinstance(a.target, ast.Name):
                        fa = kill_name(fa, a.target.id)
                    elif n.kind == "next":
                        for nm in ast.walk(a.target):
                            if isinstance(nm, ast.Name):
                                fa = kill_name(fa, nm.id)
                        mem = member_fact(a)
                        if mem is not None:
                            fa = fa | mem
                    outs.add((fa, rl, tk))
            outs = frozenset(outs)
            if n.kind in ("test", "assert"):
                res = {}
                for lab, pol in (("true", True), ("false", False)):
                    ws = set()
                    for add in alts_of(n.ast.test, pol):
                        for (fa, rl, tk) in outs:
                            if any(negate(x) in fa for x in add if negate(x)):
                                continue
                            ws.add((fa | frozenset(add), rl, tk))
                    res[lab] = frozenset(ws)
                res[None] = outs
                return Branch(res)
            if n.kind == "next":
                done = frozenset((fa, rl, tk | {"L:" + norm(a.iter)}) for (fa, rl, tk) in outs)
                return Branch({"item": outs, "done": done, None: outs})
            return outs

        def join(a, b):
            u = a | b
            if len(u) > MAX_WORLDS:
                by = {}
                for fa, rl, tk in u:
                    if rl in by:
                        by[rl] = (by[rl][0] & fa, by[rl][1] & tk)
                    else:
                        by[rl] = (fa, tk)
                u = frozenset((fa, rl, tk) for rl, (fa, tk) in by.items())
            return u

        init = frozenset([(frozenset(), zero, frozenset())])
        state = forward(fe.cfg, init, lambda n, st: transfer(n, st), join, follow=lambda n, s, lab: lab != "exc")
        for n in fe.cfg.nodes:
            if n.id in state:
                transfer(n, state[n.id], recorded)
        ex = state.get(fe.cfg.exit.id, frozenset())
        self.summary[f.key] = {"rel": frozenset(rl for fa, rl, tk in ex), "events": frozenset(sum_events),
                               "tokens": frozenset(sum_tokens)}
        merged = {}
        for re_, fa, tk in recorded:
            k = (id(re_.ev), re_.rel, re_.side, re_.op, re_.elem, re_.cont, re_.via)
            if k in merged:
                merged[k][1].append(fa)
                merged[k] = (merged[k][0], merged[k][1], merged[k][2] & tk)
            else:
                merged[k] = (re_, [fa], tk)
        self.results[f.key] = {"exit": ex, "events": list(merged.values()), "state": state, "fe": fe, "refusals": refusals, "refusal_tokens": refusal_tokens, "cascade": cascade}


def _alpha(e):
    """rename the variables bound by comprehensions inside e (they live in their own scope; a later loop variable of the same name
    must not invalidate what was recorded about e)"""
    import copy
    hit = _alpha_cache.get(id(e))
    if hit is not None and hit[0] is e:
        return hit[1]
    res = _alpha0(e, copy)
    _alpha_cache[id(e)] = (e, res)
    return res


_alpha_cache = {}


def _alpha0(e, copy):
    bound = []
    for n in ast.walk(e):
        if isinstance(n, (ast.GeneratorExp, ast.ListComp, ast.SetComp, ast.DictComp)):
            for g in n.generators:
                for t in ast.walk(g.target):
                    if isinstance(t, ast.Name):
                        bound.append(t.id)
    if not bound:
        return e
    ren = {b: "%s_cv" % b for b in bound}
    e2 = copy_tree(e)
    for n in ast.walk(e2):
        if isinstance(n, ast.Name) and n.id in ren:
            n.id = ren[n.id]
    return e2


def with_def_consequences(facts):
    """facts plus what follows from `x = <boolean expression>; … x is known true/false`: the atoms of the expression itself"""
    defs = {}
    for a in facts:
        m = re.match(r"def\((\w+),(.*)\)$", a)
        if m:
            defs[m.group(1)] = m.group(2)
    out = set(facts)
    for a in list(facts):
        m = re.match(r"(truthy|falsy)\((\w+)\)$", a)
        if m and m.group(2) in defs:
            try:
                e = ast.parse(defs[m.group(2)], mode="eval").body
            except SyntaxError:
                continue
            alts = alts_of(e, m.group(1) == "truthy")
            if len(alts) == 1:
                out |= set(alts[0])
    return frozenset(out)


def flag_consequences(fnode, facts):
    """facts plus what a boolean flag stands for: `ok = <E0>` … `for t in <iter>: if <T>: ok = False; break` … and `ok` known true
    afterwards means E0 held and T held for no element — added as the atoms of E0 and as truthy(all((not T for t in iter)))"""
    out = set(facts)
    for a in list(facts):
        m = re.match(r"truthy\((\w+)\)$", a)
        if not m:
            continue
        flag = m.group(1)
        assigns = [n for n in walk_local(fnode) if isinstance(n, ast.Assign) and len(n.targets) == 1 and norm(n.targets[0]) == flag]
        if len(assigns) < 2:
            continue
        inits = [n for n in assigns if not (isinstance(n.value, ast.Constant) and n.value.value is False)]
        clears = [n for n in assigns if isinstance(n.value, ast.Constant) and n.value.value is False]
        if len(inits) != 1 or not clears:
            continue
        ok = True
        extra = set()
        for c in clears:
            test, loop = None, None
            for p_ in parent_chain(c):
                if isinstance(p_, ast.If) and test is None and any(c is s_ for s_ in p_.body):
                    test = p_.test
                if isinstance(p_, ast.For):
                    loop = p_
                    break
                if isinstance(p_, (ast.FunctionDef, ast.While)):
                    break
            if test is None or loop is None:
                ok = False
                break
            gen = "all((not %s for %s in %s))" % (norm(_alpha(test)), norm(loop.target), norm(loop.iter))
            extra.add(atom("truthy", gen))
        if not ok:
            continue
        e0 = inits[0].value
        if not (isinstance(e0, ast.Constant) and e0.value is True):
            alts = alts_of(e0, True)
            if len(alts) == 1:
                extra |= set(alts[0])
        out |= extra
    return frozenset(out)


def expand_defs(text, facts, depth=3):
    """substitute single-assignment locals (def(name, expr) atoms) into a text"""
    defs = {}
    for a in facts:
        if a.startswith("def("):
            inner = a[4:-1]
            name, expr = inner.split(",", 1)
            defs[name] = expr
    for _ in range(depth):
        changed = False
        for name, expr in defs.items():
            new = re.sub(r"(?<![\w.])%s(?![\w])" % re.escape(name), expr.replace("\\", "\\\\"), text)
            if new != text:
                text = new
                changed = True
        if not changed:
            break
    return text
