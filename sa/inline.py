"""On-demand inlining of private helpers, for rules that read one function body as a whole.

`inlined_view(P, f)` returns a FuncInfo whose node is a deep copy of f's definition in which calls to private helpers of the
same class / module are replaced by the helper's body (parameters substituted, locals renamed, `return` mapped onto the
call's context).  The copy keeps the original line numbers, so reports point into the helper; its key / qualname are f's, so
finding keys do not depend on whether a maintainer extracted a helper or not.  Only shapes that can be spliced without
changing the meaning are inlined; anything else is left as the call it was.

What is spliced (helper h, private = one leading underscore, same class as f or same module, not recursive, no
global/nonlocal, no nested function definitions):
  statement  `self.h(a…)` / `C.h(a…)` / `h(a…)`        -> body            (h returns nothing, or its value is discarded)
  statement  `x = self.h(a…)` / `return self.h(a…)`      -> body, final `return e` -> `x = e` / `return e`
  generator  `yield from self.h(a…)` / `for v in self.h(a…): yield v`  -> body (its yields become the caller's)
  expression `self.h(a…)` where h is a single `return e`  -> e
  condition  `if [pre and] h(a…) [and post]: B1 else: B2` -> body of h, each `return e` continued by `if e [and post]: B1 else: B2`
Early `return`s of the helper are allowed when they sit in `if` statements outside any loop of the helper: `if c: return`
followed by S becomes `if c: pass` / `else: S`."""
import ast
import copy

from .core import FuncInfo, norm, walk_local, copy_tree

MAX_DEPTH = 3


def _is_private(name):
    return name.startswith("_") and not (name.startswith("__") and name.endswith("__"))


def _helper_of(P, f, call):
    """the FuncInfo a call resolves to when it is a private helper of f's class or module, else None"""
    fn = call.func
    mod = f.module
    if isinstance(fn, ast.Name):
        # a closure defined in the body of f itself (free variables keep their meaning when the body is spliced back in)
        for st in f.node.body:
            if isinstance(st, ast.FunctionDef) and st.name == fn.id and not any(isinstance(x, (ast.Yield, ast.YieldFrom, ast.Nonlocal)) for x in ast.walk(st)):
                return FuncInfo(st.name, "%s.<locals>.%s" % (f.qualname, st.name), mod, None, st, "function"), None
    if isinstance(fn, ast.Name) and _is_private(fn.id) and fn.id in mod.functions:
        return mod.functions[fn.id], None
    if isinstance(fn, ast.Name) and _is_private(fn.id) and fn.id in mod.imports:
        # a private helper shared between sibling modules (`from .patterns import _group_unseen_by_key`)
        dotted = mod.imports[fn.id]
        modname, _, fname = dotted.rpartition(".")
        for rel, m2 in P.modules.items():
            if m2.modname == modname and fname in m2.functions:
                return m2.functions[fname], None
    if isinstance(fn, ast.Attribute) and isinstance(fn.value, ast.Call) and isinstance(fn.value.func, ast.Name) and fn.value.func.id == "super" \
            and not fn.value.args and f.cls is not None and f.role == "method":
        # super().m(…): the method the first base class that has one provides (single inheritance chains only)
        cur, hops = f.cls, 0
        while cur is not None and hops < 6:
            hops += 1
            if len(cur.base_names) != 1:
                break
            bname = cur.base_names[0].split(".")[-1]
            nxt = [c for m2 in P.modules.values() for c in m2.classes.values() if c.name == bname]
            if len(nxt) != 1:
                break
            cur = nxt[0]
            if fn.attr in cur.methods:
                h = cur.methods[fn.attr]
                return (h, "self") if h.role == "method" else (None, None)
        return None, None
    if isinstance(fn, ast.Attribute) and _is_private(fn.attr) and isinstance(fn.value, ast.Attribute) and _plain_chain(fn.value):
        # `x.reference._helper(…)`: the receiver is read once into a local of the spliced body
        if mod.relpath.startswith("spydrnet/ir/"):
            cands = [ci.methods[fn.attr] for ci in P.ir_classes.values() if fn.attr in ci.methods]
        else:
            cands = [ci.methods[fn.attr] for ci in mod.classes.values() if fn.attr in ci.methods] or \
                    [ci.methods[fn.attr] for ci in P.ir_classes.values() if fn.attr in ci.methods]
        cands = [c for c in cands if c.role == "method"]
        if len(cands) == 1:
            return cands[0], fn.value
    if isinstance(fn, ast.Attribute) and _is_private(fn.attr) and isinstance(fn.value, ast.Name):
        base = fn.value.id
        if f.cls is not None and (base in ("self", "cls") or base == f.cls.name):
            h = f.cls.methods.get(fn.attr)
            if h is None and f.module.relpath.startswith("spydrnet/ir/"):
                h = P.ir_lookup_method(f.cls.name, fn.attr) if f.cls.name in P.ir_classes else None
            if h is not None:
                return h, base
        # `x._helper(...)` on another object: inlined when exactly one class in scope defines a private method of that name
        if base not in ("self", "cls"):
            if mod.relpath.startswith("spydrnet/ir/"):
                cands = [ci.methods[fn.attr] for ci in P.ir_classes.values() if fn.attr in ci.methods]
            else:
                cands = [ci.methods[fn.attr] for ci in mod.classes.values() if fn.attr in ci.methods] or \
                        [ci.methods[fn.attr] for ci in P.ir_classes.values() if fn.attr in ci.methods]
            cands = [c for c in cands if c.role == "method"]
            if len(cands) == 1:
                return cands[0], base
    return None, None


def _plain_chain(e):
    while isinstance(e, ast.Attribute):
        e = e.value
    return isinstance(e, ast.Name)


def _inlineable(h):
    if h.role not in ("method", "static", "function", None):
        return False
    for n in ast.walk(h.node):
        if n is not h.node and isinstance(n, (ast.FunctionDef, ast.AsyncFunctionDef, ast.Lambda, ast.ClassDef)):
            return False
        if isinstance(n, ast.Nonlocal):
            return False
        if isinstance(n, ast.Global) and h.cls is not None:
            return False
        if isinstance(n, ast.Call) and ((isinstance(n.func, ast.Name) and n.func.id == h.name) or
                                        (isinstance(n.func, ast.Attribute) and n.func.attr == h.name)):
            return False  # recursive
    a = h.node.args
    if a.vararg or a.kwarg or a.kwonlyargs:
        return False
    return True


def _returns_outside_loops_only(stmts):
    """every Return lies in `if` statements (or at top level), never inside a loop / try / with of the helper"""
    for st in stmts:
        if isinstance(st, (ast.For, ast.While, ast.Try, ast.With)):
            if any(isinstance(x, ast.Return) for x in ast.walk(st)):
                return False
        elif isinstance(st, ast.If):
            if not _returns_outside_loops_only(st.body) or not _returns_outside_loops_only(st.orelse):
                return False
    return True


def _structure_returns(stmts, on_return):
    """rewrite a statement list so that `return [e]` becomes on_return(e) and the statements after an `if` that returned are
    moved into the complementary branch.  Returns (new statements, falls_through)."""
    out = []
    for i, st in enumerate(stmts):
        if isinstance(st, ast.Return):
            out.extend(on_return(st.value, st))
            return out, False
        if isinstance(st, ast.If) and any(isinstance(x, ast.Return) for x in ast.walk(st)):
            # what follows the `if` is what each branch goes on with: it is appended to both branches *before* they are structured, so that
            # inside a branch it lands exactly on the paths that fall through (a nested `if` whose arms partly return included)
            rest = stmts[i + 1:]
            body, b_falls = _structure_returns(list(st.body) + [copy_tree(x) for x in rest], on_return)
            orelse, o_falls = _structure_returns(list(st.orelse) + [copy_tree(x) for x in rest], on_return)
            falls = b_falls or o_falls
            new_if = ast.If(test=st.test, body=body or [ast.Pass()], orelse=orelse)
            ast.copy_location(new_if, st)
            out.append(new_if)
            return out, falls
        out.append(st)
    return out, True


class _Subst(ast.NodeTransformer):
    def __init__(self, mapping, rename):
        self.mapping = mapping  # param name -> replacement expression
        self.rename = rename    # local name -> new local name

    def visit_Name(self, node):
        if node.id in self.mapping and isinstance(node.ctx, ast.Load):
            return ast.copy_location(copy_tree(self.mapping[node.id]), node)
        if node.id in self.rename:
            return ast.copy_location(ast.Name(id=self.rename[node.id], ctx=node.ctx), node)
        return node


def _simple_arg(e):
    return isinstance(e, (ast.Name, ast.Constant)) or (isinstance(e, ast.Attribute) and _simple_arg(e.value)) or \
        (isinstance(e, ast.Subscript) and _simple_arg(e.value) and isinstance(e.slice, (ast.Name, ast.Constant)))


def _bind(h, base, call, tag):
    """(prelude statements, substituter) for splicing h's body at `call`; None if the arguments cannot be matched"""
    params = [a.arg for a in h.node.args.args]
    defaults = h.node.args.defaults
    args = list(call.args)
    if h.role == "method":
        if base is None:
            return None
        if isinstance(base, ast.AST):
            args = [copy_tree(base)] + args
        elif base != h.cls.name:
            args = [ast.Name(id=base, ctx=ast.Load())] + args
        # C.h(obj, a…): the receiver is written out as the first argument
    if any(isinstance(a, ast.Starred) for a in args) or any(k.arg is None for k in call.keywords):
        return None
    bound = dict(zip(params, args))
    for k in call.keywords:
        if k.arg not in params or k.arg in bound:
            return None
        bound[k.arg] = k.value
    for p, d in zip(params[len(params) - len(defaults):], defaults):
        bound.setdefault(p, d)
    if set(bound) != set(params):
        return None
    stored = {n.id for n in ast.walk(h.node) if isinstance(n, ast.Name) and isinstance(n.ctx, (ast.Store, ast.Del))}
    prelude, mapping, rename = [], {}, {}
    for p in params:
        a = bound[p]
        if p in stored or not _simple_arg(a) or (isinstance(base, ast.AST) and p == params[0]):
            newp = "%s__%s" % (p, tag)
            asg = ast.Assign(targets=[ast.Name(id=newp, ctx=ast.Store())], value=a)
            ast.copy_location(asg, call)
            ast.fix_missing_locations(asg)
            prelude.append(asg)
            rename[p] = newp
        else:
            mapping[p] = a
    for n in stored:
        if n not in params:
            rename[n] = "%s__%s" % (n, tag)
    return prelude, _Subst(mapping, rename)


def _body_copy(h, subst):
    body = [copy_tree(st) for st in h.node.body if not isinstance(st, ast.Global)]
    if body and isinstance(body[0], ast.Expr) and isinstance(body[0].value, ast.Constant) and isinstance(body[0].value.value, str):
        body = body[1:]
    return [subst.visit(st) for st in body]


EAGER = {"list": "append", "tuple": "append", "sorted": "append", "set": "add", "frozenset": "add"}


_override_cache = {}


def _overridden_below(P, h):
    key = (P.serial, h.key)
    if key not in _override_cache:
        res = False
        classes = getattr(P, "ir_classes", None) or {}
        if h.cls.name in classes:
            for cname, ci in classes.items():
                if cname != h.cls.name and any(b.name == h.cls.name for b in P.ir_mro(cname)) and h.name in ci.methods:
                    res = True
                    break
        if len(_override_cache) > 5000:
            _override_cache.clear()
        _override_cache[key] = res
    return _override_cache[key]


class _Inliner:
    def __init__(self, P, f, keep=(), eager_only=False):
        self.P, self.f = P, f
        self.keep = keep
        self.eager_only = eager_only  # splice nothing but generator helpers that are consumed on the spot
        self.globals = set()
        self.count = 0
        self.inlined = []
        self.super_used = False

    def helper(self, call):
        if not isinstance(call, ast.Call):
            return None, None
        h, base = _helper_of(self.P, self.f, call)
        if h is None or h.node is self.f.node or not _inlineable(h):
            return None, None
        if (callable(self.keep) and self.keep(h.name)) or (not callable(self.keep) and h.name in self.keep):
            return None, None  # an anchor the calling rule reasons about by name
        is_super = isinstance(call.func, ast.Attribute) and isinstance(call.func.value, ast.Call) and norm(call.func.value.func) == "super"
        if h.cls is not None and h.role == "method" and not is_super and _overridden_below(self.P, h):
            return None, None  # a subclass answers this call differently: which body runs is decided by the object, not here
        if is_super:
            self.super_used = True
        return h, base

    def splice(self, call, on_return, need_value=False, generator=False, tail=False):
        h, base = self.helper(call)
        if h is None:
            return None
        is_gen = any(isinstance(x, (ast.Yield, ast.YieldFrom)) for x in walk_local(h.node))
        if is_gen != generator:
            return None
        if not tail and not _returns_outside_loops_only(h.node.body):
            return None
        self.count += 1
        b = _bind(h, base, call, "i%d" % self.count)
        if b is None:
            return None
        prelude, subst = b
        body = _body_copy(h, subst)
        for st in h.node.body:
            if isinstance(st, ast.Global):
                self.globals.update(st.names)
        if need_value and not (body and isinstance(body[-1], ast.Return)):
            body = body + [ast.copy_location(ast.Return(value=None), call)]  # falling off the end returns None
        if tail:
            # `return h(a…)`: the helper's returns are the caller's returns, wherever they sit (inside its loops too)
            new = body
        else:
            new, falls = _structure_returns(body, on_return)
        self.inlined.append(h.qualname)
        return prelude + (new or [ast.Pass()])

    def stmts(self, lst, depth):
        out = []
        for st in lst:
            rep = self.one(st, depth)
            if rep is None:
                for fld in ("body", "orelse", "finalbody"):
                    sub = getattr(st, fld, None)
                    if isinstance(sub, list) and sub and isinstance(sub[0], ast.stmt):
                        setattr(st, fld, self.stmts(sub, depth))
                if isinstance(st, ast.Try):
                    for hd in st.handlers:
                        hd.body = self.stmts(hd.body, depth)
                if not self.eager_only:
                    self.exprs(st)
                out.append(st)
            else:
                out.extend(self.stmts(rep, depth + 1) if depth + 1 < MAX_DEPTH else rep)
        return out

    def one(self, st, depth):
        def loc(n):
            return ast.fix_missing_locations(ast.copy_location(n, st))
        rep = self.eager(st, loc)
        if rep is not None:
            return rep
        if self.eager_only:
            # load-time pass: besides eagerly consumed generators, helpers that are handed a function to call (a bound method, a function
            # name): what they do is decided by that argument, which only the caller knows
            if isinstance(st, (ast.Expr, ast.Assign, ast.Return)) and isinstance(st.value, ast.Call) and self._callable_arg(st.value):
                if isinstance(st, ast.Expr):
                    return self.splice(st.value, lambda e, at: ([loc(ast.Expr(value=e))] if e is not None and not isinstance(e, ast.Constant) else []))
                if isinstance(st, ast.Assign) and len(st.targets) == 1:
                    tgt = st.targets[0]
                    return self.splice(st.value, lambda e, at: [loc(ast.Assign(targets=[copy_tree(tgt)], value=e if e is not None else ast.Constant(value=None)))],
                                       need_value=True)
                if isinstance(st, ast.Return):
                    return self.splice(st.value, lambda e, at: [loc(ast.Return(value=e))], need_value=True, tail=True)
            return None
        rep = self.hoist(st, loc)
        if rep is not None:
            return rep
        if isinstance(st, ast.For) and isinstance(st.iter, ast.Call):
            # for x in h(a…): with h an ordinary (non-generator) multi-statement helper: the iterable is computed once, first
            h, base = self.helper(st.iter)
            if h is not None and not any(isinstance(x, (ast.Yield, ast.YieldFrom)) for x in walk_local(h.node)):
                hb = [s_ for s_ in h.node.body if not (isinstance(s_, ast.Expr) and isinstance(s_.value, ast.Constant))]
                if not (len(hb) == 1 and isinstance(hb[0], ast.Return)):
                    self.count += 1
                    tmp = "iter__h%d" % self.count
                    first = loc(ast.Assign(targets=[ast.Name(id=tmp, ctx=ast.Store())], value=copy_tree(st.iter)))
                    second = copy_tree(st)
                    second.iter = ast.copy_location(ast.Name(id=tmp, ctx=ast.Load()), st.iter)
                    return [first, second]
        if isinstance(st, ast.Expr) and isinstance(st.value, ast.Call):
            return self.splice(st.value, lambda e, at: ([loc(ast.Expr(value=e))] if e is not None and not isinstance(e, ast.Constant) else []))
        if isinstance(st, ast.Assign) and len(st.targets) == 1 and isinstance(st.value, ast.Call):
            tgt = st.targets[0]
            return self.splice(st.value, lambda e, at: [loc(ast.Assign(targets=[copy_tree(tgt)], value=e if e is not None else ast.Constant(value=None)))], need_value=True)
        if isinstance(st, ast.Return) and isinstance(st.value, ast.Call):
            return self.splice(st.value, lambda e, at: [loc(ast.Return(value=e))], need_value=True, tail=True)
        if isinstance(st, ast.AugAssign) and isinstance(st.value, ast.Call) and _simple_arg(st.target):
            # X += h(a…)  with h a multi-statement helper:  tmp = <h spliced>; X += tmp     (X a plain name / attribute: reading it after h ran
            # instead of before makes no difference unless h rebinds it, which a spliced private helper of this shape does not)
            h, base = self.helper(st.value)
            if h is not None and not any(isinstance(x, (ast.Yield, ast.YieldFrom)) for x in walk_local(h.node)) \
                    and not any(isinstance(x, ast.Name) and isinstance(st.target, ast.Name) and x.id == st.target.id and not isinstance(x.ctx, ast.Load)
                                for x in ast.walk(h.node)):
                self.count += 1
                tmp = "value__a%d" % self.count
                first = loc(ast.Assign(targets=[ast.Name(id=tmp, ctx=ast.Store())], value=st.value))
                second = loc(ast.AugAssign(target=copy_tree(st.target), op=st.op, value=ast.Name(id=tmp, ctx=ast.Load())))
                return [first, second]
        if isinstance(st, ast.If):
            rep = self.branch_condition(st, loc)
            if rep is not None:
                return rep
        if isinstance(st, ast.Assert):
            # assert h(a…), msg  with h a multi-statement predicate helper: its body, each `return e` becoming `assert e, msg`
            t, neg = st.test, False
            if isinstance(t, ast.UnaryOp) and isinstance(t.op, ast.Not):
                t, neg = t.operand, True
            h, base = self.helper(t)
            if h is not None:
                hb = [s_ for s_ in h.node.body if not (isinstance(s_, ast.Expr) and isinstance(s_.value, ast.Constant))]
                if not (len(hb) == 1 and isinstance(hb[0], ast.Return)):
                    def on_ret(e, at):
                        e = e if e is not None else ast.Constant(value=None)
                        if neg:
                            e = ast.UnaryOp(op=ast.Not(), operand=e)
                        return [loc(ast.Assert(test=e, msg=copy_tree(st.msg) if st.msg is not None else None))]
                    rep = self.splice(t, on_ret, need_value=True)
                    if rep is not None:
                        return rep
        if isinstance(st, ast.Expr) and isinstance(st.value, ast.YieldFrom) and isinstance(st.value.value, ast.Call):
            return self.splice(st.value.value, lambda e, at: [], generator=True)
        if isinstance(st, ast.For) and isinstance(st.iter, ast.Call) and len(st.body) == 1 and isinstance(st.body[0], ast.Expr) \
                and isinstance(st.body[0].value, ast.Yield) and norm(st.body[0].value.value) == norm(st.target) and not st.orelse:
            return self.splice(st.iter, lambda e, at: [], generator=True)
        return None

    def _callable_arg(self, call):
        """one of the arguments is a function: a bound method of self, or the name of a function / method of the module"""
        h, base = self.helper(call)
        if h is None:
            return False
        mod, cls = self.f.module, self.f.cls
        for a in list(call.args) + [k.value for k in call.keywords]:
            if isinstance(a, ast.Attribute) and isinstance(a.value, ast.Name) and a.value.id in ("self", "cls") and cls is not None and a.attr in cls.methods:
                return True
            if isinstance(a, ast.Name) and a.id in mod.functions:
                return True
        return False

    def eager(self, st, loc):
        """a generator helper consumed on the spot:
             T = list(h(a…)) / return list(h(a…))    ->  acc = []; <body of h, `yield e` -> acc.append(e)>; T = acc
             X.extend(h(a…)) / X.update(h(a…))       ->  <body of h, `yield e` -> X.append(e) / X.add(e)>
             for v in h(a…): BODY                    ->  <body of h, `yield e` -> v = e; BODY>      (BODY without break; the order of
                                                          operations is the one lazy evaluation gives)"""
        wrap = acc = None
        call = None
        if isinstance(st, (ast.Assign, ast.Return)) and isinstance(st.value, ast.Call) and isinstance(st.value.func, ast.Name) \
                and st.value.func.id in EAGER and len(st.value.args) == 1 and not st.value.keywords and isinstance(st.value.args[0], ast.Call) \
                and (isinstance(st, ast.Return) or len(st.targets) == 1):
            call, wrap = st.value.args[0], st.value.func.id
        elif isinstance(st, ast.Expr) and isinstance(st.value, ast.Call) and isinstance(st.value.func, ast.Attribute) \
                and st.value.func.attr in ("extend", "update") and len(st.value.args) == 1 and not st.value.keywords \
                and isinstance(st.value.args[0], ast.Call) and _simple_arg(st.value.func.value):
            call, acc = st.value.args[0], st.value.func.value
        elif isinstance(st, ast.For) and isinstance(st.iter, ast.Call) and not st.orelse and getattr(self, "for_loops", True) \
                and not (len(st.body) == 1 and isinstance(st.body[0], ast.Expr) and isinstance(st.body[0].value, ast.Yield)):
            call = st.iter
        if call is None:
            return None
        h, base = self.helper(call)
        if h is None or not any(isinstance(x, (ast.Yield, ast.YieldFrom)) for x in walk_local(h.node)):
            return None
        if any(isinstance(x, (ast.Try, ast.With, ast.Return)) for x in walk_local(h.node)):
            return None
        if any(isinstance(x, (ast.Yield, ast.YieldFrom)) and not isinstance(getattr(x, "_parent", None), ast.Expr) for x in walk_local(h.node)):
            return None  # the value of a yield expression is used (send protocol)
        self.count += 1
        tag = "g%d" % self.count
        if isinstance(st, ast.For):
            from .unroll import _level_jumps, _structure
            jumps, hard = _level_jumps(st.body)
            if hard or any(isinstance(j, ast.Break) for j in jumps):
                return None
            body_t, _ = _structure([copy_tree(x) for x in st.body], lambda kind: [])
            tgt = st.target
            stored_h = {n.id for n in ast.walk(h.node) if isinstance(n, ast.Name) and isinstance(n.ctx, (ast.Store, ast.Del))}

            tnames = [tgt] if isinstance(tgt, ast.Name) else (list(tgt.elts) if isinstance(tgt, ast.Tuple) and all(isinstance(t, ast.Name) for t in tgt.elts) else None)
            body_stores = {n.id for x in st.body for n in ast.walk(x) if isinstance(n, ast.Name) and isinstance(n.ctx, (ast.Store, ast.Del))}
            used_later = False  # the loop variables are not read after the loop (checked by name over the rest of the function)
            end = getattr(st, "end_lineno", st.lineno)
            if tnames is not None:
                tn = {t.id for t in tnames}
                used_later = any(isinstance(n, ast.Name) and n.id in tn and isinstance(n.ctx, ast.Load) and n.lineno > end for n in ast.walk(self.f.node))

            def plain(e):
                # names and literals only: an attribute read (`pin.wire`) is taken once, when the generator yields — the body may change it
                return isinstance(e, (ast.Name, ast.Constant)) or (isinstance(e, (ast.List, ast.Tuple)) and not e.elts)

            def emit(e, at):
                # the loop variables stand for what is yielded: substituted where that is a plain expression the body does not rebind
                vals = [e] if isinstance(tgt, ast.Name) else (list(e.elts) if isinstance(e, ast.Tuple) and tnames is not None and len(e.elts) == len(tnames) else None)
                if tnames is not None and vals is not None and not used_later and not ({t.id for t in tnames} & body_stores):
                    # per element: substituted when plain, bound by an assignment otherwise
                    m_, pre_ = {}, []
                    for t, v in zip(tnames, vals):
                        if plain(v):
                            m_[t.id] = v
                        else:
                            a_ = ast.Assign(targets=[ast.Name(id=t.id, ctx=ast.Store())], value=v)
                            pre_.append(ast.fix_missing_locations(ast.copy_location(a_, at)))
                    sub = _Subst(m_, {})
                    return pre_ + [sub.visit(copy_tree(x)) for x in body_t]
                asg = ast.Assign(targets=[copy_tree(tgt)], value=e)
                ast.copy_location(asg, at)
                return [ast.fix_missing_locations(asg)] + [copy_tree(x) for x in body_t]
        else:
            if acc is None:
                accname = "acc__%s" % tag
                acc = ast.Name(id=accname, ctx=ast.Load())
                meth = EAGER[wrap]
            else:
                meth = "append" if st.value.func.attr == "extend" else "add"

            def emit(e, at):
                c = ast.Expr(value=ast.Call(func=ast.Attribute(value=copy_tree(acc), attr=meth, ctx=ast.Load()), args=[e], keywords=[]))
                ast.copy_location(c, at)
                return [ast.fix_missing_locations(c)]
        b = _bind(h, base, call, tag)
        if b is None:
            return None
        prelude, subst = b
        body = _body_copy(h, subst)

        is_for = isinstance(st, ast.For)
        me = self

        class Y(ast.NodeTransformer):
            def visit_Expr(self, n):
                if isinstance(n.value, ast.Yield):
                    return emit(n.value.value if n.value.value is not None else ast.Constant(value=None), n)
                if isinstance(n.value, ast.YieldFrom):
                    # yield from E  ==  for v in E: yield v   (as a statement): the consumer's loop runs over E directly
                    if is_for:
                        lp = ast.For(target=copy_tree(st.target), iter=n.value.value, body=[copy_tree(x) for x in body_t], orelse=[])
                    else:
                        me.count += 1
                        v = "item__y%d" % me.count
                        lp = ast.For(target=ast.Name(id=v, ctx=ast.Store()), iter=n.value.value, body=emit(ast.Name(id=v, ctx=ast.Load()), n), orelse=[])
                    return [ast.fix_missing_locations(ast.copy_location(lp, n))]
                return n

            def visit_FunctionDef(self, n):
                return n
        new = []
        for x in body:
            r = Y().visit(x)
            new.extend(r if isinstance(r, list) else [r])
        self.inlined.append(h.qualname)
        # a stage of a generator pipeline:  h(g(a…))  with g a generator helper too.  Calling g runs nothing (it only makes the
        # generator), so when the parameter is read once, as the iterable of the loop h starts with, g(a…) is written there
        for pa in list(prelude):
            v = pa.value
            if not (isinstance(v, ast.Call) and all(_simple_arg(a_) for a_ in v.args) and not v.keywords):
                continue
            g_, _b = self.helper(v)
            if g_ is None or not any(isinstance(x, (ast.Yield, ast.YieldFrom)) for x in walk_local(g_.node)):
                continue
            nm_ = pa.targets[0].id
            uses = [x for s_ in new for x in ast.walk(s_) if isinstance(x, ast.Name) and x.id == nm_]
            if len(uses) == 1 and new and isinstance(new[0], ast.For) and new[0].iter is uses[0] and prelude[-1] is pa:
                new[0].iter = v
                prelude.remove(pa)
        if isinstance(st, ast.For):
            return prelude + new
        if wrap is None:
            return prelude + new
        init = ast.Assign(targets=[ast.Name(id=acc.id, ctx=ast.Store())], value=ast.List(elts=[], ctx=ast.Load()) if meth == "append" else
                          ast.Call(func=ast.Name(id="set", ctx=ast.Load()), args=[], keywords=[]))
        val = copy_tree(acc) if wrap in ("list", "set") else ast.Call(func=ast.Name(id=wrap, ctx=ast.Load()), args=[copy_tree(acc)], keywords=[])
        fin = ast.Return(value=val) if isinstance(st, ast.Return) else ast.Assign(targets=[copy_tree(st.targets[0])], value=val)
        return prelude + [loc(init)] + new + [loc(fin)]

    def hoist(self, st, loc):
        """x = f(h(a…), …) with h a multi-statement helper and nothing evaluated before h(a…) but names and attribute reads:
        tmp = h(a…); x = f(tmp, …) — the helper call becomes a statement of its own, which can then be spliced"""
        if not (isinstance(st, (ast.Assign, ast.Expr, ast.Return)) and isinstance(st.value, ast.Call)):
            return None
        outer = st.value
        if not outer.args or not _simple_arg(outer.func):
            return None
        comp = None
        if isinstance(outer.args[0], (ast.GeneratorExp, ast.ListComp, ast.SetComp)) and isinstance(outer.args[0].generators[0].iter, ast.Call):
            # the outermost iterable of a comprehension is evaluated when the comprehension is created, i.e. first
            comp = outer.args[0]
            inner = comp.generators[0].iter
        elif isinstance(outer.args[0], ast.Call):
            inner = outer.args[0]
        else:
            return None
        h, base = self.helper(inner)
        if h is None:
            return None
        hb = [s_ for s_ in h.node.body if not (isinstance(s_, ast.Expr) and isinstance(s_.value, ast.Constant))]
        if len(hb) == 1 and isinstance(hb[0], ast.Return):
            return None  # substituted in place by exprs()
        if any(isinstance(x, (ast.Yield, ast.YieldFrom)) for x in walk_local(h.node)):
            return None
        self.count += 1
        tmp = "arg__h%d" % self.count
        first = loc(ast.Assign(targets=[ast.Name(id=tmp, ctx=ast.Store())], value=inner))
        second = copy_tree(st)
        if comp is not None:
            second.value.args[0].generators[0].iter = ast.copy_location(ast.Name(id=tmp, ctx=ast.Load()), inner)
        else:
            second.value.args[0] = ast.copy_location(ast.Name(id=tmp, ctx=ast.Load()), inner)
        first.value = copy_tree(inner)
        return [first, second]

    def branch_condition(self, st, loc):
        """`if [pre and] h(a…) [and post]: B1 else: B2` with h a multi-statement predicate helper: h's body is spliced in with every
        `return e` continued by `if e [and post]: B1 else: B2` (constant results pick the branch directly).  `not h(a…)` swaps the
        branches.  The helper runs exactly when it did before: after `pre` held, before `post` is looked at."""
        test, neg = st.test, False
        if isinstance(test, ast.UnaryOp) and isinstance(test.op, ast.Not):
            test, neg = test.operand, True
        conj = list(test.values) if isinstance(test, ast.BoolOp) and isinstance(test.op, ast.And) else [test]
        if neg and len(conj) > 1:
            return None
        idx = None
        for i, c in enumerate(conj):
            h, base = self.helper(c)
            if h is None:
                continue
            hb = [s_ for s_ in h.node.body if not (isinstance(s_, ast.Expr) and isinstance(s_.value, ast.Constant))]
            if len(hb) == 1 and isinstance(hb[0], ast.Return):
                continue  # single-expression helpers are substituted in place by exprs()
            idx = i
            break
        if idx is None:
            return None
        pre, post = conj[:idx], conj[idx + 1:]
        b1, b2 = (st.orelse, st.body) if neg else (st.body, st.orelse)

        def conj_of(parts):
            return parts[0] if len(parts) == 1 else loc(ast.BoolOp(op=ast.And(), values=parts))

        def on_true():
            if post:
                return [loc(ast.If(test=copy_tree(conj_of(post)), body=copy_tree(b1) or [loc(ast.Pass())], orelse=copy_tree(b2)))]
            return copy_tree(b1)

        def on_return(e, at):
            if e is None or (isinstance(e, ast.Constant) and not e.value):
                return copy_tree(b2) or [loc(ast.Pass())]
            if isinstance(e, ast.Constant):
                return on_true() or [loc(ast.Pass())]
            return [loc(ast.If(test=e, body=on_true() or [loc(ast.Pass())], orelse=copy_tree(b2)))]
        rep = self.splice(conj[idx], on_return, need_value=True)
        if rep is None:
            return None
        if pre:
            return [loc(ast.If(test=conj_of(pre), body=rep, orelse=copy_tree(b2)))]
        return rep

    def exprs(self, st):
        """expression-position calls to single-expression helpers"""
        me = self

        class T(ast.NodeTransformer):
            def visit_Call(self, node):
                self.generic_visit(node)
                h, base = me.helper(node)
                if h is None:
                    return node
                body = [s_ for s_ in h.node.body if not (isinstance(s_, ast.Expr) and isinstance(s_.value, ast.Constant))]
                if len(body) != 1 or not isinstance(body[0], ast.Return) or body[0].value is None:
                    return node
                me.count += 1
                b = _bind(h, base, node, "e%d" % me.count)
                if b is None or b[0]:
                    return node
                me.inlined.append(h.qualname)
                return ast.copy_location(b[1].visit(copy_tree(body[0].value)), node)

        for fld, val in ast.iter_fields(st):
            if isinstance(val, ast.expr):
                setattr(st, fld, T().visit(val))
            elif isinstance(val, list) and val and isinstance(val[0], ast.expr):
                setattr(st, fld, [T().visit(v) for v in val])


_NAVIGATION = {"reference", "definition", "parent", "library", "netlist", "children", "ports", "cables", "references", "name", "item", "definitions", "libraries"}
_CONTAINER_METHODS = {"remove", "add", "append", "discard", "insert", "extend", "index", "count", "get", "setdefault", "update", "pop", "difference_update",
                      "intersection_update", "appendleft", "extendleft"}
_PURE_BUILTINS = {"isinstance", "len", "zip", "list", "set", "tuple", "id", "type", "iter", "next", "enumerate", "reversed", "sorted", "bool", "str", "repr",
                  "frozenset", "dict", "all", "any", "sum", "min", "max", "range", "hash", "print", "issubclass", "callable"}


def _substitute_field_aliases(node):
    """`current = self._reference … current._references.remove(self)`: a local bound once to a plain field read of self / a parameter is
    replaced, at the uses that follow, by the field read it stands for — unless something in between (in document order) could have
    changed the field: a store to it, a call on the same object, the object handed to a call.  Returns whether anything was replaced."""
    stores = {}
    for n in ast.walk(node):
        if isinstance(n, ast.Name) and isinstance(n.ctx, (ast.Store, ast.Del)):
            stores[n.id] = stores.get(n.id, 0) + 1
    params = {a.arg for a in node.args.args}
    order = {}
    i = 0
    todo = [node]
    while todo:
        n = todo.pop()
        order[id(n)] = i
        i += 1
        todo.extend(reversed(list(ast.iter_child_nodes(n))))
    last = {}
    for n in ast.walk(node):
        if isinstance(n, (ast.Call, ast.Assign, ast.AugAssign, ast.Delete)):
            last[id(n)] = max(order[id(x)] for x in ast.walk(n))
    store_pos = {}
    for n in ast.walk(node):
        if isinstance(n, ast.Name) and isinstance(n.ctx, (ast.Store, ast.Del)):
            store_pos[n.id] = order[id(n)]
    alias = {}  # name -> [(field read, position of the binding)], every binding of the name being the same field read
    bad = set()
    for n in ast.walk(node):
        if isinstance(n, ast.Assign) and len(n.targets) == 1 and isinstance(n.targets[0], ast.Name):
            nm = n.targets[0].id
            if nm not in params and isinstance(n.value, ast.Attribute) and isinstance(n.value.value, ast.Name) \
                    and (((n.value.value.id == "self" or n.value.value.id in params) and stores.get(n.value.value.id, 0) == 0)
                         # … or of a local bound exactly once, before this statement (a loop variable inside its loop: `pins = reference._pins`)
                         # (private fields and the navigation properties; connection pointers such as `.wire` are snapshots on purpose —
                         # flatten and the comparer read them before they rewire — and stay locals)
                         or (stores.get(n.value.value.id, 0) == 1 and n.value.value.id not in params
                             and (n.value.attr.startswith("_") or n.value.attr in _NAVIGATION)
                             and store_pos.get(n.value.value.id, 1 << 30) < order[id(n)])):
                alias.setdefault(nm, []).append((n.value, last.get(id(n), order[id(n)])))
            elif nm not in params and isinstance(n.value, ast.Constant):
                alias.setdefault(nm, []).append((n.value, last.get(id(n), order[id(n)])))  # a binding to a literal: nothing to substitute there
            else:
                bad.add(nm)
    # a name bound to different field reads in different branches (each branch carrying its own continuation, as `specialise` leaves
    # them): a use is replaced only when the binding nearest before it sits in a block that encloses the use, and no binding is in a loop
    multi = {}
    parent = {}
    for n in ast.walk(node):
        for c in ast.iter_child_nodes(n):
            parent[id(c)] = n
    binding_stmt = {}
    for n in ast.walk(node):
        if isinstance(n, ast.Assign) and len(n.targets) == 1 and isinstance(n.targets[0], ast.Name) and isinstance(n.value, (ast.Attribute, ast.Constant)):
            binding_stmt[id(n.value)] = n

    def in_loop(x):
        p_ = parent.get(id(x))
        while p_ is not None and p_ is not node:
            if isinstance(p_, (ast.For, ast.While)):
                return True
            p_ = parent.get(id(p_))
        return False
    for nm in list(alias):
        if nm in bad or len(alias[nm]) != stores.get(nm):
            del alias[nm]
        elif all(isinstance(v, ast.Constant) for v, d in alias[nm]):
            del alias[nm]
        elif len({norm(v) for v, d in alias[nm]}) != 1:
            if not any(in_loop(v) for v, d in alias[nm]):
                multi[nm] = True
            else:
                del alias[nm]
    if not alias:
        return False
    disturb = []
    for n in ast.walk(node):
        if isinstance(n, ast.Call):
            if isinstance(n.func, ast.Attribute) and n.func.attr.startswith("_call_") and norm(n.func.value).split(".")[-1] == "global_callback":
                continue  # the announcement of a change: a listener may veto it, it does not edit the relation it is told about (stated assumption)
            roots = [a.id for a in n.args if isinstance(a, ast.Name)]
            if isinstance(n.func, ast.Attribute) and n.func.attr in _CONTAINER_METHODS and not isinstance(n.func.value, ast.Name):
                roots = []  # X._references.remove(self): a container forgets / learns an element, the element's fields are not touched
            if isinstance(n.func, ast.Name) and n.func.id in _PURE_BUILTINS:
                roots = []
            if isinstance(n.func, ast.Attribute) and isinstance(n.func.value, ast.Name):
                roots.append(n.func.value.id)
            for r in roots:
                disturb.append((order[id(n)], last[id(n)], r, None, n))
        elif isinstance(n, (ast.Assign, ast.AugAssign, ast.Delete)):
            tg = n.targets if isinstance(n, (ast.Assign, ast.Delete)) else [n.target]
            for t in tg:
                for x in ast.walk(t):
                    if isinstance(x, ast.Attribute) and isinstance(x.ctx, (ast.Store, ast.Del)) and isinstance(x.value, ast.Name):
                        disturb.append((order[id(n)], last[id(n)], x.value.id, x.attr, n))
    changed = [False]

    def chain(x):
        out = []
        while x is not None and x is not node:
            out.append(x)
            x = parent.get(id(x))
        return out

    def exclusive(x, use, bind):
        """x and use sit in different arms of one if statement (and no loop that starts after the binding takes control from one arm
        to the other): what happens at x cannot come before the use"""
        cx, cu = chain(x), chain(use)
        ids_u = {id(z): i for i, z in enumerate(cu)}
        for i, z in enumerate(cx):
            if id(z) in ids_u:
                j = ids_u[id(z)]
                if not isinstance(z, ast.If) or i == 0 or j == 0:
                    return False
                ax, au = cx[i - 1], cu[j - 1]
                arm_x = "body" if any(ax is s_ for s_ in z.body) else ("orelse" if any(ax is s_ for s_ in z.orelse) else None)
                arm_u = "body" if any(au is s_ for s_ in z.body) else ("orelse" if any(au is s_ for s_ in z.orelse) else None)
                if arm_x is None or arm_u is None or arm_x == arm_u:
                    return False
                bchain = {id(b) for b in chain(bind)} if bind is not None else set()
                return not any(isinstance(l_, (ast.For, ast.While)) and id(l_) not in bchain for l_ in cx[i:])
        return False

    class A(ast.NodeTransformer):
        def visit_Name(self, n):
            if isinstance(n.ctx, ast.Load) and n.id in alias:
                at = order.get(id(n))
                before = [(v_, d_) for v_, d_ in alias[n.id] if at is not None and d_ < at]
                if not before:
                    return n
                v, d = max(before, key=lambda t_: t_[1])
                if isinstance(v, ast.Constant) or not isinstance(v.value, ast.Name):
                    return n  # (the second: the alias's own root was an alias and has been written out meanwhile — left as it is)
                if n.id in multi:
                    blk = parent.get(id(binding_stmt[id(v)]))
                    p_ = parent.get(id(n))
                    while p_ is not None and p_ is not blk:
                        p_ = parent.get(id(p_))
                    if p_ is None:
                        return n
                root, attr = v.value.id, v.attr
                for first, lst, r, a, where in disturb:
                    if d < first and lst < at and r == root and (a is None or a == attr) and not exclusive(where, n, binding_stmt.get(id(v))):
                        return n
                changed[0] = True
                return ast.copy_location(copy_tree(v), n)
            return n
    A().visit(node)
    return changed[0]


_cache = {}


def eager_generators_inlined(P, f):
    """f's definition with private generator helpers that are consumed on the spot (list(h(…)), X.extend(h(…))) spliced in, or
    None when there is nothing to splice.  Used once, at load time: every rule then sees the container being built in place."""
    def maybe(x):
        if not isinstance(x, ast.Call):
            return False
        if ((isinstance(x.func, ast.Name) and x.func.id in EAGER) or (isinstance(x.func, ast.Attribute) and x.func.attr in ("extend", "update"))) \
                and len(x.args) == 1 and isinstance(x.args[0], ast.Call):
            return True
        # a private helper handed a function
        nm = x.func.id if isinstance(x.func, ast.Name) else (x.func.attr if isinstance(x.func, ast.Attribute) else "")
        if nm.startswith("_") and not nm.startswith("__"):
            for a in list(x.args) + [k.value for k in x.keywords]:
                if (isinstance(a, ast.Attribute) and isinstance(a.value, ast.Name) and a.value.id in ("self", "cls")) or \
                        (isinstance(a, ast.Name) and a.id in f.module.functions):
                    return True
        return False
    if not any(maybe(x) for x in walk_local(f.node)):
        return None
    node = copy_tree(f.node)
    for parent in ast.walk(node):
        for child in ast.iter_child_nodes(parent):
            child._parent = parent
    inl = _Inliner(P, f, (), eager_only=True)
    inl.for_loops = False
    node.body = inl.stmts(node.body, 0)
    if not inl.inlined:
        return None
    ast.fix_missing_locations(node)
    return node, sorted(set(inl.inlined))


def _merge_repeated_tests(stmts, held=()):
    """if T: … if T: X …   ->   if T: … X …     T a comparison of plain names / literals whose names nothing in between assigns
    (a method spliced into the branch that had already selected its case)"""
    out = []
    for st in stmts:
        if isinstance(st, ast.If):
            t = norm(st.test)
            plain = isinstance(st.test, ast.Compare) and all(isinstance(x, (ast.Name, ast.Constant, ast.Compare, ast.Eq, ast.NotEq, ast.Is, ast.IsNot, ast.Load, ast.In, ast.NotIn))
                                                              for x in ast.walk(st.test))
            if plain and t in held:
                out.extend(_merge_repeated_tests(st.body, held))
                continue
            names = {x.id for x in ast.walk(st.test) if isinstance(x, ast.Name)}
            stored = {x.id for s_ in st.body for x in ast.walk(s_) if isinstance(x, ast.Name) and not isinstance(x.ctx, ast.Load)}
            st.body = _merge_repeated_tests(st.body, held + ((t,) if plain and not (names & stored) else ()))
            st.orelse = _merge_repeated_tests(st.orelse, held)
        elif isinstance(st, (ast.For, ast.While, ast.With, ast.Try)):
            for fld in ("body", "orelse", "finalbody"):
                sub = getattr(st, fld, None)
                if isinstance(sub, list) and sub and isinstance(sub[0], ast.stmt):
                    setattr(st, fld, _merge_repeated_tests(sub, ()))
        out.append(st)
    return out or [ast.Pass()]


def _split_tuple_unpacks(node):
    """t = (x, y); a, b = t      (adjacent statements; t a plain local, x / y plain names or literals)
       ->  t = (x, y); a = x; b = y      — a pair bundled into one parameter and unpacked on the first line of the helper"""
    changed = [False]

    def block(stmts):
        out = []
        for i, st in enumerate(stmts):
            prev = out[-1] if out else None
            if isinstance(st, ast.Assign) and len(st.targets) == 1 and isinstance(st.targets[0], ast.Tuple) and isinstance(st.value, ast.Name) \
                    and isinstance(prev, ast.Assign) and len(prev.targets) == 1 and isinstance(prev.targets[0], ast.Name) and prev.targets[0].id == st.value.id \
                    and isinstance(prev.value, ast.Tuple) and len(prev.value.elts) == len(st.targets[0].elts) \
                    and all(isinstance(t, ast.Name) for t in st.targets[0].elts) and all(isinstance(x, (ast.Name, ast.Constant)) for x in prev.value.elts) \
                    and not ({t.id for t in st.targets[0].elts} & {x.id for x in prev.value.elts if isinstance(x, ast.Name)}):
                out.extend(ast.copy_location(ast.Assign(targets=[t], value=copy_tree(x)), st) for t, x in zip(st.targets[0].elts, prev.value.elts))
                changed[0] = True
                continue
            for fld in ("body", "orelse", "finalbody"):
                sub = getattr(st, fld, None)
                if isinstance(sub, list) and sub and isinstance(sub[0], ast.stmt) and not isinstance(st, (ast.FunctionDef, ast.AsyncFunctionDef, ast.ClassDef)):
                    setattr(st, fld, block(sub))
            for h in getattr(st, "handlers", []) or []:
                h.body = block(h.body)
            out.append(st)
        return out
    node.body = block(node.body)
    if changed[0]:
        ast.fix_missing_locations(node)
    return changed[0]


_records_cache = {}


def _records(P):
    """({record constructor name: field names}, {module-level name: lambda it stands for}) over the whole program:
    NAME = namedtuple("NAME", fields) / class NAME(NamedTuple) with annotated fields; NAME = attrgetter(...) / methodcaller(...) / lambda"""
    if P.serial in _records_cache:
        return _records_cache[P.serial]
    from .unroll import _as_lambda
    recs, lams, seen = {}, {}, {}
    for m in P.modules.values():
        for st in m.tree.body:
            if isinstance(st, ast.Assign) and len(st.targets) == 1 and isinstance(st.targets[0], ast.Name):
                nm, v = st.targets[0].id, st.value
                seen[nm] = seen.get(nm, 0) + 1
                if isinstance(v, ast.Call) and (norm(v.func).split(".")[-1] == "namedtuple") and len(v.args) == 2 and not v.keywords:
                    fl = v.args[1]
                    if isinstance(fl, (ast.List, ast.Tuple)) and all(isinstance(x, ast.Constant) and isinstance(x.value, str) for x in fl.elts):
                        recs[nm] = [x.value for x in fl.elts]
                    elif isinstance(fl, ast.Constant) and isinstance(fl.value, str):
                        recs[nm] = fl.value.replace(",", " ").split()
                elif nm.startswith("_"):
                    lam = _as_lambda(v)
                    if lam is not None and not (lam.args.vararg or lam.args.kwarg or lam.args.kwonlyargs or lam.args.defaults or lam.args.posonlyargs):
                        lams[nm] = lam
            elif isinstance(st, ast.ClassDef) and any(norm(b).split(".")[-1] == "NamedTuple" for b in st.bases):
                fields = [x.target.id for x in st.body if isinstance(x, ast.AnnAssign) and isinstance(x.target, ast.Name)]
                if fields and not any(isinstance(x, ast.AnnAssign) and x.value is not None for x in st.body):
                    recs[st.name] = fields
                seen[st.name] = seen.get(st.name, 0) + 1
    recs = {k: v for k, v in recs.items() if seen.get(k) == 1}
    lams = {k: v for k, v in lams.items() if seen.get(k) == 1}
    _records_cache.clear()
    _records_cache[P.serial] = (recs, lams)
    return recs, lams


def _scalarise_records(node, recs):
    """a local that only ever holds a record built on the spot (or None) and is only read field by field (or tested for None):
         v = R(a, b)   ->  v__f = a; v__g = b; v__present = True          v = None  ->  v__f = None; v__g = None; v__present = False
         v.f  ->  v__f            v is None / v is not None  ->  not v__present / v__present
    The record never exists as an object any more — nothing could tell, since nothing else ever saw it.  (Reading a field when v is
    None raises AttributeError in the source and an unbound-local error in the view: an error path either way.)"""
    if not recs:
        return False
    params = {a.arg for a in node.args.args + node.args.kwonlyargs + node.args.posonlyargs} | \
        {a.arg for a in (node.args.vararg, node.args.kwarg) if a is not None}
    stores, loads = {}, {}
    for x in ast.walk(node):
        if isinstance(x, ast.Name):
            (loads if isinstance(x.ctx, ast.Load) else stores).setdefault(x.id, []).append(x)
    for x in ast.walk(node):
        for c in ast.iter_child_nodes(x):
            c._sra_parent = x
    done = False
    for v, ss in stores.items():
        if v in params or v not in loads:
            continue
        ctor, ok = None, True
        for s_ in ss:
            a = getattr(s_, "_sra_parent", None)
            if not (isinstance(a, ast.Assign) and len(a.targets) == 1 and a.targets[0] is s_):
                ok = False
                break
            val = a.value
            if isinstance(val, ast.Constant) and val.value is None:
                continue
            if isinstance(val, ast.Call) and isinstance(val.func, ast.Name) and val.func.id in recs and (ctor in (None, val.func.id)) \
                    and not any(isinstance(z, ast.Starred) for z in val.args) and all(k.arg for k in val.keywords):
                fields = recs[val.func.id]
                given = fields[:len(val.args)] + [k.arg for k in val.keywords]
                if sorted(given) != sorted(fields):
                    ok = False
                    break
                ctor = val.func.id
                continue
            ok = False
            break
        if not ok or ctor is None:
            continue
        fields = recs[ctor]
        for l_ in loads[v]:
            par = getattr(l_, "_sra_parent", None)
            if isinstance(par, ast.Attribute) and par.value is l_ and isinstance(par.ctx, ast.Load) and par.attr in fields:
                continue
            if isinstance(par, ast.Compare) and par.left is l_ and len(par.ops) == 1 and isinstance(par.ops[0], (ast.Is, ast.IsNot)) \
                    and isinstance(par.comparators[0], ast.Constant) and par.comparators[0].value is None:
                continue
            ok = False
            break
        if not ok or any(isinstance(z, (ast.FunctionDef, ast.Lambda)) and z is not node and any(isinstance(y, ast.Name) and y.id == v for y in ast.walk(z))
                         for z in ast.walk(node)):
            continue

        class R(ast.NodeTransformer):
            def visit_Assign(self, a):
                self.generic_visit(a)
                if len(a.targets) == 1 and isinstance(a.targets[0], ast.Name) and a.targets[0].id == v:
                    if isinstance(a.value, ast.Constant):
                        out = [ast.Assign(targets=[ast.Name(id="%s__%s" % (v, fl), ctx=ast.Store())], value=ast.Constant(value=None)) for fl in fields]
                        out.append(ast.Assign(targets=[ast.Name(id=v + "__present", ctx=ast.Store())], value=ast.Constant(value=False)))
                        return [ast.fix_missing_locations(ast.copy_location(o, a)) for o in out]
                    vals = dict(zip(fields, a.value.args))
                    vals.update({k.arg: k.value for k in a.value.keywords})
                    order = fields[:len(a.value.args)] + [k.arg for k in a.value.keywords]
                    out = [ast.Assign(targets=[ast.Name(id="%s__%s" % (v, fl), ctx=ast.Store())], value=vals[fl]) for fl in order]
                    out.append(ast.Assign(targets=[ast.Name(id=v + "__present", ctx=ast.Store())], value=ast.Constant(value=True)))
                    return [ast.fix_missing_locations(ast.copy_location(o, a)) for o in out]
                return a

            def visit_Attribute(self, n):
                self.generic_visit(n)
                if isinstance(n.value, ast.Name) and n.value.id == v and isinstance(n.ctx, ast.Load):
                    return ast.copy_location(ast.Name(id="%s__%s" % (v, n.attr), ctx=ast.Load()), n)
                return n

            def visit_Compare(self, n):
                if isinstance(n.left, ast.Name) and n.left.id == v:
                    pres = ast.copy_location(ast.Name(id=v + "__present", ctx=ast.Load()), n)
                    if isinstance(n.ops[0], ast.IsNot):
                        return pres
                    return ast.copy_location(ast.UnaryOp(op=ast.Not(), operand=pres), n)
                self.generic_visit(n)
                return n
        R().visit(node)
        ast.fix_missing_locations(node)
        done = True
    return done


def _unroll_singleton_loops(node):
    """`t = (a,)` immediately followed by `for x in t: BODY` (t used nowhere else), or `for x in (a,): BODY`, reads `x = a; BODY`: a helper
    that takes an iterable, spliced in at a call that hands it one element.  Only when BODY has no break / continue of its own and the loop
    has no else."""
    changed = False

    def own_jumps(body):
        todo = list(body)
        while todo:
            st = todo.pop()
            if isinstance(st, (ast.Break, ast.Continue)):
                return True
            if isinstance(st, (ast.For, ast.While, ast.FunctionDef, ast.ClassDef)):
                continue
            for fld in ("body", "orelse", "finalbody"):
                todo.extend(getattr(st, fld, None) or [])
            for h in getattr(st, "handlers", None) or []:
                todo.extend(h.body)
        return False

    def uses(name):
        return sum(1 for z in ast.walk(node) if isinstance(z, ast.Name) and z.id == name)

    def bind(target, elt, body, at):
        """`target = elt; body` — or, when both are plain names and neither is stored to in body, body with the name written through"""
        if isinstance(target, ast.Name) and isinstance(elt, ast.Name) and uses(target.id) == 1 + sum(
                1 for b in body for z in ast.walk(b) if isinstance(z, ast.Name) and z.id == target.id) \
                and not any(isinstance(z, ast.Name) and z.id in (target.id, elt.id) and isinstance(z.ctx, (ast.Store, ast.Del)) for b in body for z in ast.walk(b)):
            for b in body:
                for z in ast.walk(b):
                    if isinstance(z, ast.Name) and z.id == target.id:
                        z.id = elt.id
            return list(body)
        return [ast.copy_location(ast.Assign(targets=[target], value=elt), at)] + list(body)

    def block(stmts):
        nonlocal changed
        out, i = [], 0
        while i < len(stmts):
            st = stmts[i]
            for fld in ("body", "orelse", "finalbody"):
                b = getattr(st, fld, None)
                if isinstance(b, list) and b and isinstance(b[0], ast.stmt):
                    setattr(st, fld, block(b))
            for h in getattr(st, "handlers", None) or []:
                h.body = block(h.body)
            nxt = stmts[i + 1] if i + 1 < len(stmts) else None
            if isinstance(st, ast.Assign) and len(st.targets) == 1 and isinstance(st.targets[0], ast.Name) and isinstance(st.value, (ast.Tuple, ast.List)) \
                    and len(st.value.elts) == 1 and not isinstance(st.value.elts[0], ast.Starred) and isinstance(nxt, ast.For) \
                    and isinstance(nxt.iter, ast.Name) and nxt.iter.id == st.targets[0].id and uses(st.targets[0].id) == 2 \
                    and not nxt.orelse and not own_jumps(nxt.body):
                for fld in ("body",):
                    nxt.body = block(nxt.body)
                out.extend(bind(nxt.target, st.value.elts[0], nxt.body, nxt))
                changed = True
                i += 2
                continue
            if isinstance(st, ast.For) and isinstance(st.iter, (ast.Tuple, ast.List)) and len(st.iter.elts) == 1 and not isinstance(st.iter.elts[0], ast.Starred) \
                    and not st.orelse and not own_jumps(st.body):
                out.extend(bind(st.target, st.iter.elts[0], st.body, st))
                changed = True
                i += 1
                continue
            out.append(st)
            i += 1
        return out
    node.body = block(node.body)
    if changed:
        ast.fix_missing_locations(node)
        for parent in ast.walk(node):
            for child in ast.iter_child_nodes(parent):
                child._parent = parent
    return changed


def calls_iterating_helper(P, f):
    """does method f call a private method of its own class whose body, at top level, loops over one of its parameters?  Such a helper
    (`_remove_pins(pins)`: `for pin in pins: …`) is the caller's own loop written elsewhere: the caller is read with it spliced in."""
    if f.cls is None:
        return False
    cls = f.cls
    if not hasattr(cls, "methods"):
        return False
    for c in walk_local(f.node):
        if isinstance(c, ast.Call) and isinstance(c.func, ast.Attribute) and isinstance(c.func.value, ast.Name) and c.func.value.id == "self" \
                and c.func.attr.startswith("_") and not c.func.attr.startswith("__") and c.func.attr in cls.methods:
            h = cls.methods[c.func.attr]
            if any(isinstance(st, ast.For) and isinstance(st.iter, ast.Name) and st.iter.id in h.params[1:] for st in h.node.body):
                return True
    return False


def inlined_view(P, f, keep=()):
    """FuncInfo of f with private helpers spliced in (f itself when there is nothing to splice); helpers named in `keep`
    (a set of names or a predicate on the name) stay calls — they are the anchors the calling rule reasons about"""
    key = (P.serial, f.key, keep if callable(keep) else tuple(sorted(keep)))
    if key in _cache:
        return _cache[key]
    node = copy_tree(f.node)
    inl = _Inliner(P, f, keep)
    node.body = inl.stmts(node.body, 0)
    recs, lams = _records(P)
    if inl.inlined:
        _split_tuple_unpacks(node)
        _unroll_singleton_loops(node)
    scalar = bool(inl.inlined) and _scalarise_records(node, recs)
    aliased = _substitute_field_aliases(node)
    if not inl.inlined and not aliased:
        _cache[key] = f
        return f
    # a helper that picks constants (attribute / method names) by a test, spliced in: the code that follows is read once per choice
    from .unroll import specialise, _Choice, _Fold, _fold_constant_tests
    node.body = specialise(node.body)
    _Choice().visit(node)
    if any("DefaultNamespace" in h or "super" in h for h in inl.inlined) or inl.super_used:
        node.body = _merge_repeated_tests(node.body)
    if scalar:
        # the choices made, what was a field holding a function is a function called by name: module-level operator helpers
        # (_lower = methodcaller("lower")) are applied, private one-line functions spliced, tests on the presence flag folded
        class L(ast.NodeTransformer):
            def visit_Call(self, n):
                self.generic_visit(n)
                if isinstance(n.func, ast.Name) and n.func.id in lams and not n.keywords and len(n.args) == len(lams[n.func.id].args.args):
                    n.func = copy_tree(lams[n.func.id])
                return n
        L().visit(node)
        _Fold().visit(node)
        ast.fix_missing_locations(node)
        for parent in ast.walk(node):
            for child in ast.iter_child_nodes(parent):
                child._parent = parent
        node.body = inl.stmts(node.body, 0)
        node.body = _fold_constant_tests(node.body) or node.body
        _substitute_field_aliases(node)
    have = {n_ for st in node.body if isinstance(st, ast.Global) for n_ in st.names}
    if inl.globals - have:
        node.body.insert(0, ast.copy_location(ast.Global(names=sorted(inl.globals - have)), node.body[0]))
    ast.fix_missing_locations(node)
    for parent in ast.walk(node):
        for child in ast.iter_child_nodes(parent):
            child._parent = parent
    node._parent = getattr(f.node, "_parent", None)
    g = FuncInfo(f.name, f.qualname, f.module, f.cls, node, f.role, f.prop)
    g.inlined_helpers = sorted(set(inl.inlined))
    _cache[key] = g
    return g



def guards_structured_view(f):
    """FuncInfo of f in which, inside loops, a guard clause `if c: continue` followed by the rest of the body reads
    `if not c: <rest>` — the same control flow with the condition under which the rest runs written at the rest"""
    flip = {ast.Eq: ast.NotEq, ast.NotEq: ast.Eq, ast.Is: ast.IsNot, ast.IsNot: ast.Is, ast.In: ast.NotIn, ast.NotIn: ast.In,
            ast.Lt: ast.GtE, ast.GtE: ast.Lt, ast.Gt: ast.LtE, ast.LtE: ast.Gt}
    changed = [False]

    def neg(t):
        if isinstance(t, ast.UnaryOp) and isinstance(t.op, ast.Not):
            return t.operand
        if isinstance(t, ast.Compare) and len(t.ops) == 1 and type(t.ops[0]) in flip:
            return ast.copy_location(ast.Compare(left=t.left, ops=[flip[type(t.ops[0])]()], comparators=t.comparators), t)
        return ast.copy_location(ast.UnaryOp(op=ast.Not(), operand=t), t)

    def body_of_loop(stmts):
        out = []
        for i, st in enumerate(stmts):
            walk(st)
            if isinstance(st, ast.If) and not st.orelse and len(st.body) == 1 and isinstance(st.body[0], ast.Continue) and stmts[i + 1:]:
                rest = body_of_loop(stmts[i + 1:])
                out.append(ast.copy_location(ast.If(test=neg(st.test), body=rest, orelse=[]), st))
                changed[0] = True
                return out
            out.append(st)
        return out

    def walk(st):
        for fld in ("body", "orelse", "finalbody"):
            sub = getattr(st, fld, None)
            if isinstance(sub, list) and sub and isinstance(sub[0], ast.stmt) and not isinstance(st, (ast.FunctionDef, ast.AsyncFunctionDef, ast.ClassDef)):
                if isinstance(st, (ast.For, ast.While)) and fld == "body":
                    setattr(st, fld, body_of_loop(sub))
                else:
                    for x in sub:
                        walk(x)
        for h in getattr(st, "handlers", []) or []:
            for x in h.body:
                walk(x)
    node = copy_tree(f.node)
    for st in node.body:
        walk(st)
    if not changed[0]:
        return f
    ast.fix_missing_locations(node)
    for parent in ast.walk(node):
        for child in ast.iter_child_nodes(parent):
            child._parent = parent
    node._parent = getattr(f.node, "_parent", None)
    return FuncInfo(f.name, f.qualname, f.module, f.cls, node, f.role, f.prop)


_unmerge_cache = {}


def unmerged_view(P, f, max_rest=40):
    """FuncInfo of f in which the statements that follow `if isinstance(v, K): A else: B` (both branches falling through) and read `v`
    are moved into both branches; likewise after an if / else one side of which leaves a local at None that the rest reads.  Nothing changes but the shape: each copy is then analysed knowing which kind `v` has — what a
    path-sensitive typing of the merged tail would give.  Keys and names are f's."""
    key = (P.serial, f.key)
    if key in _unmerge_cache:
        return _unmerge_cache[key]

    def falls(stmts):
        return not (stmts and isinstance(stmts[-1], (ast.Return, ast.Raise, ast.Continue, ast.Break)))

    def count(stmts):
        return sum(1 for s_ in stmts for x in ast.walk(s_) if isinstance(x, ast.stmt))
    changed = [False]

    def block(stmts, depth=0):
        out = []
        for i, st in enumerate(stmts):
            for fld in ("body", "orelse", "finalbody"):
                sub = getattr(st, fld, None)
                if isinstance(sub, list) and sub and isinstance(sub[0], ast.stmt) and not isinstance(st, (ast.FunctionDef, ast.AsyncFunctionDef, ast.ClassDef)):
                    setattr(st, fld, block(sub, depth))
            rest = stmts[i + 1:]
            if isinstance(st, ast.If) and st.orelse and rest and depth < 3:
                t = st.test
                if isinstance(t, ast.UnaryOp) and isinstance(t.op, ast.Not):
                    t = t.operand
                vs = []
                if isinstance(t, ast.Call) and isinstance(t.func, ast.Name) and t.func.id == "isinstance" and len(t.args) == 2 and isinstance(t.args[0], ast.Name):
                    vs.append(t.args[0].id)
                # … or a split in which one side leaves a local at None (`port = pin.port if pin else None`): what follows usually tests it
                def none_binds(blk):
                    return {a.targets[0].id for a in blk if isinstance(a, ast.Assign) and len(a.targets) == 1 and isinstance(a.targets[0], ast.Name)
                            and isinstance(a.value, ast.Constant) and a.value.value is None}

                def binds(blk):
                    return {a.targets[0].id for a in blk if isinstance(a, ast.Assign) and len(a.targets) == 1 and isinstance(a.targets[0], ast.Name)}
                vs.extend(sorted((none_binds(st.body) & binds(st.orelse)) | (none_binds(st.orelse) & binds(st.body))))
                for v in vs:
                    reads = any(isinstance(x, ast.Name) and x.id == v and isinstance(x.ctx, ast.Load) for s_ in rest for x in ast.walk(s_))
                    if reads and falls(st.body) and falls(st.orelse) and count(rest) <= max_rest \
                            and not any(isinstance(x, (ast.FunctionDef, ast.Lambda)) for s_ in rest for x in ast.walk(s_)):
                        # (the arm and its copy of the rest are read again as one block: a split at the end of the arm meets its tail now)
                        st.body = block(st.body + [copy_tree(s_) for s_ in rest], depth + 1)
                        st.orelse = block(st.orelse + [copy_tree(s_) for s_ in rest], depth + 1)
                        out.append(st)
                        changed[0] = True
                        return out
            out.append(st)
        return out
    node = copy_tree(f.node)
    node.body = block(node.body)
    if not changed[0]:
        _unmerge_cache[key] = f
        return f
    ast.fix_missing_locations(node)
    for parent in ast.walk(node):
        for child in ast.iter_child_nodes(parent):
            child._parent = parent
    node._parent = getattr(f.node, "_parent", None)
    g = FuncInfo(f.name, f.qualname, f.module, f.cls, node, f.role, f.prop)
    _unmerge_cache[key] = g
    return g
