"""On-demand inlining of private helpers, for rules that read one function body as a whole.

`inlined_view(P, f)` returns a FuncInfo whose node is a deep copy of f's definition in which calls to private helpers of the
same class / module are replaced by the helper's body (parameters substituted, locals renamed, `return` mapped onto the
call's context).  The copy keeps the original line numbers, so reports point into the helper; its key / qualname are f's, so
finding keys do not depend on whether a maintainer extracted a helper or not.  Only shapes that can be spliced without
changing the meaning are inlined; anything else is left as the call it was.

What is spliced (helper h, private = one leading underscore, same class as f or same module, not recursive, no
global/nonlocal, no nested function definitions):
  statement  `self.h(a…)` / `C.h(a…)` / `h(a…)`        -> body            (h returns nothing, or its value is discarded)
  statement  `x = self.h(a…)` / `return self.h(a…)`      -> body, final `return e` -> `x = e` / `return e`
  generator  `yield from self.h(a…)` / `for v in self.h(a…): yield v`  -> body (its yields become the caller's)
  expression `self.h(a…)` where h is a single `return e`  -> e
Early `return`s of the helper are allowed when they sit in `if` statements outside any loop of the helper: `if c: return`
followed by S becomes `if c: pass` / `else: S`."""
import ast
import copy

from .core import FuncInfo, norm, walk_local, copy_tree

MAX_DEPTH = 3


def _is_private(name):
    return name.startswith("_") and not (name.startswith("__") and name.endswith("__"))


def _helper_of(P, f, call):
    """the FuncInfo a call resolves to when it is a private helper of f's class or module, else None"""
    fn = call.func
    mod = f.module
    if isinstance(fn, ast.Name):
        # a closure defined in the body of f itself (free variables keep their meaning when the body is spliced back in)
        for st in f.node.body:
            if isinstance(st, ast.FunctionDef) and st.name == fn.id and not any(isinstance(x, (ast.Yield, ast.YieldFrom, ast.Nonlocal)) for x in ast.walk(st)):
                return FuncInfo(st.name, "%s.<locals>.%s" % (f.qualname, st.name), mod, None, st, "function"), None
    if isinstance(fn, ast.Name) and _is_private(fn.id) and fn.id in mod.functions:
        return mod.functions[fn.id], None
    if isinstance(fn, ast.Name) and _is_private(fn.id) and fn.id in mod.imports:
        # a private helper shared between sibling modules (`from .patterns import _group_unseen_by_key`)
        dotted = mod.imports[fn.id]
        modname, _, fname = dotted.rpartition(".")
        for rel, m2 in P.modules.items():
            if m2.modname == modname and fname in m2.functions:
                return m2.functions[fname], None
    if isinstance(fn, ast.Attribute) and _is_private(fn.attr) and isinstance(fn.value, ast.Name):
        base = fn.value.id
        if f.cls is not None and (base in ("self", "cls") or base == f.cls.name):
            h = f.cls.methods.get(fn.attr)
            if h is None and f.module.relpath.startswith("spydrnet/ir/"):
                h = P.ir_lookup_method(f.cls.name, fn.attr) if f.cls.name in P.ir_classes else None
            if h is not None:
                return h, base
        # `x._helper(...)` on another object: inlined when exactly one class in scope defines a private method of that name
        if base not in ("self", "cls"):
            if mod.relpath.startswith("spydrnet/ir/"):
                cands = [ci.methods[fn.attr] for ci in P.ir_classes.values() if fn.attr in ci.methods]
            else:
                cands = [ci.methods[fn.attr] for ci in mod.classes.values() if fn.attr in ci.methods]
            cands = [c for c in cands if c.role == "method"]
            if len(cands) == 1:
                return cands[0], base
    return None, None


def _inlineable(h):
    if h.role not in ("method", "static", "function", None):
        return False
    for n in ast.walk(h.node):
        if n is not h.node and isinstance(n, (ast.FunctionDef, ast.AsyncFunctionDef, ast.Lambda, ast.ClassDef)):
            return False
        if isinstance(n, ast.Nonlocal):
            return False
        if isinstance(n, ast.Global) and h.cls is not None:
            return False
        if isinstance(n, ast.Call) and ((isinstance(n.func, ast.Name) and n.func.id == h.name) or
                                        (isinstance(n.func, ast.Attribute) and n.func.attr == h.name)):
            return False  # recursive
    a = h.node.args
    if a.vararg or a.kwarg or a.kwonlyargs:
        return False
    return True


def _returns_outside_loops_only(stmts):
    """every Return lies in `if` statements (or at top level), never inside a loop / try / with of the helper"""
    for st in stmts:
        if isinstance(st, (ast.For, ast.While, ast.Try, ast.With)):
            if any(isinstance(x, ast.Return) for x in ast.walk(st)):
                return False
        elif isinstance(st, ast.If):
            if not _returns_outside_loops_only(st.body) or not _returns_outside_loops_only(st.orelse):
                return False
    return True


def _structure_returns(stmts, on_return):
    """rewrite a statement list so that `return [e]` becomes on_return(e) and the statements after an `if` that returned are
    moved into the complementary branch.  Returns (new statements, falls_through)."""
    out = []
    for i, st in enumerate(stmts):
        if isinstance(st, ast.Return):
            out.extend(on_return(st.value, st))
            return out, False
        if isinstance(st, ast.If) and any(isinstance(x, ast.Return) for x in ast.walk(st)):
            rest = stmts[i + 1:]
            body, b_falls = _structure_returns(st.body, on_return)
            orelse, o_falls = _structure_returns(st.orelse, on_return) if st.orelse else ([], True)
            if rest:
                rest_new, r_falls = _structure_returns(rest, on_return)
                if b_falls:
                    body = body + copy_tree(rest_new)
                if o_falls:
                    orelse = orelse + copy_tree(rest_new)
                falls = (b_falls or o_falls) and r_falls
            else:
                falls = b_falls or o_falls
            new_if = ast.If(test=st.test, body=body or [ast.Pass()], orelse=orelse)
            ast.copy_location(new_if, st)
            out.append(new_if)
            return out, falls
        out.append(st)
    return out, True


class _Subst(ast.NodeTransformer):
    def __init__(self, mapping, rename):
        self.mapping = mapping  # param name -> replacement expression
        self.rename = rename    # local name -> new local name

    def visit_Name(self, node):
        if node.id in self.mapping and isinstance(node.ctx, ast.Load):
            return ast.copy_location(copy_tree(self.mapping[node.id]), node)
        if node.id in self.rename:
            return ast.copy_location(ast.Name(id=self.rename[node.id], ctx=node.ctx), node)
        return node


def _simple_arg(e):
    return isinstance(e, (ast.Name, ast.Constant)) or (isinstance(e, ast.Attribute) and _simple_arg(e.value)) or \
        (isinstance(e, ast.Subscript) and _simple_arg(e.value) and isinstance(e.slice, (ast.Name, ast.Constant)))


def _bind(h, base, call, tag):
    """(prelude statements, substituter) for splicing h's body at `call`; None if the arguments cannot be matched"""
    params = [a.arg for a in h.node.args.args]
    defaults = h.node.args.defaults
    args = list(call.args)
    if h.role == "method":
        if base is None:
            return None
        args = [ast.Name(id=base if base != h.cls.name else "self", ctx=ast.Load())] + args
    if any(isinstance(a, ast.Starred) for a in args) or any(k.arg is None for k in call.keywords):
        return None
    bound = dict(zip(params, args))
    for k in call.keywords:
        if k.arg not in params or k.arg in bound:
            return None
        bound[k.arg] = k.value
    for p, d in zip(params[len(params) - len(defaults):], defaults):
        bound.setdefault(p, d)
    if set(bound) != set(params):
        return None
    stored = {n.id for n in ast.walk(h.node) if isinstance(n, ast.Name) and isinstance(n.ctx, (ast.Store, ast.Del))}
    prelude, mapping, rename = [], {}, {}
    for p in params:
        a = bound[p]
        if p in stored or not _simple_arg(a):
            newp = "%s__%s" % (p, tag)
            asg = ast.Assign(targets=[ast.Name(id=newp, ctx=ast.Store())], value=a)
            ast.copy_location(asg, call)
            ast.fix_missing_locations(asg)
            prelude.append(asg)
            rename[p] = newp
        else:
            mapping[p] = a
    for n in stored:
        if n not in params:
            rename[n] = "%s__%s" % (n, tag)
    return prelude, _Subst(mapping, rename)


def _body_copy(h, subst):
    body = [copy_tree(st) for st in h.node.body if not isinstance(st, ast.Global)]
    if body and isinstance(body[0], ast.Expr) and isinstance(body[0].value, ast.Constant) and isinstance(body[0].value.value, str):
        body = body[1:]
    return [subst.visit(st) for st in body]


class _Inliner:
    def __init__(self, P, f, keep=()):
        self.P, self.f = P, f
        self.keep = keep
        self.globals = set()
        self.count = 0
        self.inlined = []

    def helper(self, call):
        if not isinstance(call, ast.Call):
            return None, None
        h, base = _helper_of(self.P, self.f, call)
        if h is None or h.node is self.f.node or not _inlineable(h):
            return None, None
        if (callable(self.keep) and self.keep(h.name)) or (not callable(self.keep) and h.name in self.keep):
            return None, None  # an anchor the calling rule reasons about by name
        return h, base

    def splice(self, call, on_return, need_value=False, generator=False):
        h, base = self.helper(call)
        if h is None:
            return None
        is_gen = any(isinstance(x, (ast.Yield, ast.YieldFrom)) for x in walk_local(h.node))
        if is_gen != generator:
            return None
        if not _returns_outside_loops_only(h.node.body):
            return None
        self.count += 1
        b = _bind(h, base, call, "i%d" % self.count)
        if b is None:
            return None
        prelude, subst = b
        body = _body_copy(h, subst)
        for st in h.node.body:
            if isinstance(st, ast.Global):
                self.globals.update(st.names)
        new, falls = _structure_returns(body, on_return)
        if need_value and falls:
            # falling off the end returns None
            new = new + on_return(None, call) if not new or not isinstance(new[-1], ast.If) else new
        self.inlined.append(h.qualname)
        return prelude + (new or [ast.Pass()])

    def stmts(self, lst, depth):
        out = []
        for st in lst:
            rep = self.one(st, depth)
            if rep is None:
                for fld in ("body", "orelse", "finalbody"):
                    sub = getattr(st, fld, None)
                    if isinstance(sub, list) and sub and isinstance(sub[0], ast.stmt):
                        setattr(st, fld, self.stmts(sub, depth))
                if isinstance(st, ast.Try):
                    for hd in st.handlers:
                        hd.body = self.stmts(hd.body, depth)
                self.exprs(st)
                out.append(st)
            else:
                out.extend(self.stmts(rep, depth + 1) if depth + 1 < MAX_DEPTH else rep)
        return out

    def one(self, st, depth):
        def loc(n):
            return ast.fix_missing_locations(ast.copy_location(n, st))
        if isinstance(st, ast.Expr) and isinstance(st.value, ast.Call):
            return self.splice(st.value, lambda e, at: ([loc(ast.Expr(value=e))] if e is not None and not isinstance(e, ast.Constant) else []))
        if isinstance(st, ast.Assign) and len(st.targets) == 1 and isinstance(st.value, ast.Call):
            tgt = st.targets[0]
            return self.splice(st.value, lambda e, at: [loc(ast.Assign(targets=[copy_tree(tgt)], value=e if e is not None else ast.Constant(value=None)))], need_value=True)
        if isinstance(st, ast.Return) and isinstance(st.value, ast.Call):
            return self.splice(st.value, lambda e, at: [loc(ast.Return(value=e))], need_value=True)
        if isinstance(st, ast.Expr) and isinstance(st.value, ast.YieldFrom) and isinstance(st.value.value, ast.Call):
            return self.splice(st.value.value, lambda e, at: [], generator=True)
        if isinstance(st, ast.For) and isinstance(st.iter, ast.Call) and len(st.body) == 1 and isinstance(st.body[0], ast.Expr) \
                and isinstance(st.body[0].value, ast.Yield) and norm(st.body[0].value.value) == norm(st.target) and not st.orelse:
            return self.splice(st.iter, lambda e, at: [], generator=True)
        return None

    def exprs(self, st):
        """expression-position calls to single-expression helpers"""
        me = self

        class T(ast.NodeTransformer):
            def visit_Call(self, node):
                self.generic_visit(node)
                h, base = me.helper(node)
                if h is None:
                    return node
                body = [s_ for s_ in h.node.body if not (isinstance(s_, ast.Expr) and isinstance(s_.value, ast.Constant))]
                if len(body) != 1 or not isinstance(body[0], ast.Return) or body[0].value is None:
                    return node
                me.count += 1
                b = _bind(h, base, node, "e%d" % me.count)
                if b is None or b[0]:
                    return node
                me.inlined.append(h.qualname)
                return ast.copy_location(b[1].visit(copy_tree(body[0].value)), node)

        for fld, val in ast.iter_fields(st):
            if isinstance(val, ast.expr):
                setattr(st, fld, T().visit(val))
            elif isinstance(val, list) and val and isinstance(val[0], ast.expr):
                setattr(st, fld, [T().visit(v) for v in val])


_cache = {}


def inlined_view(P, f, keep=()):
    """FuncInfo of f with private helpers spliced in (f itself when there is nothing to splice); helpers named in `keep`
    (a set of names or a predicate on the name) stay calls — they are the anchors the calling rule reasons about"""
    key = (id(P), f.key, keep if callable(keep) else tuple(sorted(keep)))
    if key in _cache:
        return _cache[key]
    node = copy_tree(f.node)
    inl = _Inliner(P, f, keep)
    node.body = inl.stmts(node.body, 0)
    if not inl.inlined:
        _cache[key] = f
        return f
    have = {n_ for st in node.body if isinstance(st, ast.Global) for n_ in st.names}
    if inl.globals - have:
        node.body.insert(0, ast.copy_location(ast.Global(names=sorted(inl.globals - have)), node.body[0]))
    ast.fix_missing_locations(node)
    for parent in ast.walk(node):
        for child in ast.iter_child_nodes(parent):
            child._parent = parent
    node._parent = getattr(f.node, "_parent", None)
    g = FuncInfo(f.name, f.qualname, f.module, f.cls, node, f.role, f.prop)
    g.inlined_helpers = sorted(set(inl.inlined))
    _cache[key] = g
    return g
