"""IR field model (reviewed relation table) and a small forward type ("kind")
inference over a function's CFG.

Abstract values
  ("obj", frozenset(kinds))      kinds ⊆ concrete IR classes ∪ {"None"}
  ("list"|"set"|"iter", T)       homogeneous container / iterable of T
  ("dict", K, V)                 plain mapping (iteration yields K)
  ("opview", K, V)               OuterPinsView: iteration yields V, item access by K
  ("tuple", (T1, T2, ...))
  ("href", frozenset(kinds)|None) hierarchical reference whose item has one of the kinds
  ("class", name)                an IR class object
  TOP                            unknown — rules never fire on TOP
"""
import ast

from .core import AnalysisError, norm, walk_local
from .cfg import cfg_of, forward, node_exprs, Branch

TOP = ("top",)
CONCRETE = ("Netlist", "Library", "Definition", "Port", "Cable", "Wire", "InnerPin", "OuterPin", "Instance")
ABSTRACT = {
    "Pin": ("InnerPin", "OuterPin"),
    "Bundle": ("Port", "Cable"),
    "FirstClassElement": ("Netlist", "Library", "Definition", "Port", "Cable", "Instance"),
    "Element": CONCRETE,
}


def expand(cname):
    if cname in CONCRETE:
        return frozenset([cname])
    if cname in ABSTRACT:
        return frozenset(ABSTRACT[cname])
    return None


def obj(*names, none=False):
    s = set()
    for n in names:
        s |= expand(n)
    if none:
        s.add("None")
    return ("obj", frozenset(s))


NONE = ("obj", frozenset(["None"]))


def lst(t):
    return ("list", t)


# Reviewed relation table (DESIGN §1.1): private field -> abstract value.
FIELD_TYPES = {
    ("Netlist", "_libraries"): lst(obj("Library")),
    ("Netlist", "_top_instance"): obj("Instance", none=True),
    ("Library", "_netlist"): obj("Netlist", none=True),
    ("Library", "_definitions"): lst(obj("Definition")),
    ("Definition", "_library"): obj("Library", none=True),
    ("Definition", "_ports"): lst(obj("Port")),
    ("Definition", "_cables"): lst(obj("Cable")),
    ("Definition", "_children"): lst(obj("Instance")),
    ("Definition", "_references"): ("set", obj("Instance")),
    ("Bundle", "_definition"): obj("Definition", none=True),
    ("Port", "_pins"): lst(obj("InnerPin")),
    ("Cable", "_wires"): lst(obj("Wire")),
    ("InnerPin", "_port"): obj("Port", none=True),
    ("Pin", "_wire"): obj("Wire", none=True),
    ("Wire", "_cable"): obj("Cable", none=True),
    ("Wire", "_pins"): lst(obj("Pin")),
    ("Instance", "_parent"): obj("Definition", none=True),
    ("Instance", "_reference"): obj("Definition", none=True),
    ("Instance", "_pins"): ("dict", obj("InnerPin"), obj("OuterPin")),
    ("OuterPin", "_instance"): obj("Instance", none=True),
    ("OuterPin", "_inner_pin"): obj("InnerPin", none=True),
}
SCALAR_FIELDS = {("Bundle", "_is_downto"), ("Bundle", "_is_scalar"), ("Bundle", "_lower_index"),
                 ("Port", "_direction"), ("Instance", "_is_top_instance"), ("FirstClassElement", "_data")}


class Rel:
    def __init__(self, name, ccls, cfield, ctype, ecls, efield, add_kinds, rem_kinds):
        self.name = name
        self.ccls, self.cfield, self.ctype = ccls, cfield, ctype
        self.ecls, self.efield = ecls, efield
        self.add_kinds, self.rem_kinds = tuple(add_kinds), tuple(rem_kinds)

    @property
    def kinds(self):
        return self.add_kinds + self.rem_kinds


RELATIONS = [
    Rel("netlist-library", "Netlist", "_libraries", "list", "Library", "_netlist", ["netlist_add_library"], ["netlist_remove_library"]),
    Rel("library-definition", "Library", "_definitions", "list", "Definition", "_library", ["library_add_definition"], ["library_remove_definition"]),
    Rel("definition-port", "Definition", "_ports", "list", "Port", "_definition", ["definition_add_port"], ["definition_remove_port"]),
    Rel("definition-cable", "Definition", "_cables", "list", "Cable", "_definition", ["definition_add_cable"], ["definition_remove_cable"]),
    Rel("definition-child", "Definition", "_children", "list", "Instance", "_parent", ["definition_add_child"], ["definition_remove_child"]),
    Rel("port-pin", "Port", "_pins", "list", "InnerPin", "_port", ["port_add_pin"], ["port_remove_pin"]),
    Rel("cable-wire", "Cable", "_wires", "list", "Wire", "_cable", ["cable_add_wire"], ["cable_remove_wire"]),
    Rel("wire-pin", "Wire", "_pins", "list", "Pin", "_wire", ["wire_connect_pin"], ["wire_disconnect_pin"]),
    Rel("reference", "Definition", "_references", "set", "Instance", "_reference", ["instance_reference"], ["instance_reference"]),
]
# derived relation (no event kind of its own): the instance's outer pins
OUTERPIN_KINDS = ("port_add_pin", "port_remove_pin", "definition_add_port", "definition_remove_port", "instance_reference")
TOP_KINDS = ("netlist_top_instance",)
DATA_KINDS = ("dictionary_set", "dictionary_delete", "dictionary_pop")

FIELD_OWNER = {}  # field name -> list of classes declaring it (from FIELD_TYPES / SCALAR_FIELDS)
for (c, f) in list(FIELD_TYPES) + list(SCALAR_FIELDS):
    FIELD_OWNER.setdefault(f, []).append(c)


def check_slots_against_model(P):
    """§1.1: a slot that is in no row of the model stops the run."""
    known = set(FIELD_TYPES) | set(SCALAR_FIELDS)
    n = 0
    for cname, ci in P.ir_classes.items():
        for s in ci.slots or []:
            n += 1
            if (cname, s) not in known:
                raise AnalysisError("IR slot %s.%s is not covered by the relation model (DESIGN §1.1)" % (cname, s))
    for (c, f) in known:
        if c in P.ir_classes and f not in (P.ir_classes[c].slots or []):
            raise AnalysisError("anchor vanished: slot %s.%s of the relation model" % (c, f))
    return n


def field_type(P, kinds, fname):
    """type of X._f when X has one of `kinds`; None if the field does not exist for them"""
    res = None
    for k in kinds:
        if k == "None":
            continue
        t = None
        for c in P.ir_mro(k):
            t = FIELD_TYPES.get((c.name, fname))
            if t is not None:
                break
            if (c.name, fname) in SCALAR_FIELDS:
                t = TOP
                break
        if t is None:
            return None
        res = t if res is None else join(res, t)
    return res


def field_class(P, kinds, fname):
    """the class that declares field fname for objects of these kinds (single answer or None)"""
    owners = set()
    for k in kinds:
        if k == "None":
            continue
        found = None
        for c in P.ir_mro(k):
            if (c.name, fname) in FIELD_TYPES or (c.name, fname) in SCALAR_FIELDS:
                found = c.name
                break
        if found is None:
            return None
        owners.add(found)
    return owners.pop() if len(owners) == 1 else None


def join(a, b):
    if a == b:
        return a
    if a is None:
        return b
    if b is None:
        return a
    if a == TOP or b == TOP:
        return TOP
    if a[0] == "obj" and b[0] == "obj":
        return ("obj", a[1] | b[1])
    if a[0] == b[0] and a[0] in ("list", "set", "iter"):
        return (a[0], join(a[1], b[1]))
    if a[0] in ("list", "set", "iter") and b[0] in ("list", "set", "iter"):
        return ("iter", join(a[1], b[1]))
    if a[0] == b[0] and a[0] in ("dict", "opview"):
        return (a[0], join(a[1], b[1]), join(a[2], b[2]))
    if a[0] == "href" and b[0] == "href":
        if a[1] is None or b[1] is None:
            return ("href", None)
        return ("href", a[1] | b[1])
    if a[0] == "tuple" and b[0] == "tuple" and len(a[1]) == len(b[1]):
        return ("tuple", tuple(join(x, y) for x, y in zip(a[1], b[1])))
    # an empty tuple standing in for "nothing to iterate" joined with a container: the container's elements
    if a == ("tuple", ()) and b[0] in ("list", "set", "iter", "dict", "opview"):
        return b
    if b == ("tuple", ()) and a[0] in ("list", "set", "iter", "dict", "opview"):
        return a
    # None joined with a container / href: keep the non-None side (a None value cannot be iterated)
    if a == NONE:
        return b
    if b == NONE:
        return a
    return TOP


def elem(t):
    if t is None or t == TOP:
        return TOP
    if t[0] in ("list", "set", "iter"):
        return t[1]
    if t[0] == "dict":
        return t[1]
    if t[0] == "opview":
        return t[2]
    return TOP


def kinds_of(t, strip_none=True):
    """definite kinds of an object value, or None when unknown"""
    if t is None or t == TOP or t[0] != "obj":
        return None
    k = set(t[1])
    if strip_none:
        k.discard("None")
    return frozenset(k) if k else None


class Env(dict):
    def copy(self):
        return Env(self)


def env_join(a, b):
    if a is b:
        return a
    out = Env()
    for k in set(a) | set(b):
        out[k] = join(a.get(k), b.get(k))
    return out


class Typer:
    """type inference for one function.  `self_kind` = IR class name when the function is
    a method of an IR class.  hooks: attr_hook(typer, base_type, attr, node, env) and
    call_hook(typer, call, env) let clients add domain knowledge (HRef grammar...)."""

    def __init__(self, P, func, self_kind=None, param_types=None, attr_hook=None, call_hook=None):
        self.P = P
        self.func = func
        self.node = func.node if hasattr(func, "node") else func
        self.module = getattr(func, "module", None)
        self.self_kind = self_kind
        self.param_types = param_types or {}
        self.attr_hook = attr_hook
        self.call_hook = call_hook
        self.cfg = cfg_of(self.node)
        self.local_classes = {}
        self._scan_local_imports()
        self.state = None

    # -- names that denote IR classes -------------------------------------------------
    def _scan_local_imports(self):
        for n in walk_local(self.node):
            if isinstance(n, ast.ImportFrom) and n.module and n.module.startswith("spydrnet.ir"):
                for a in n.names:
                    if a.name in self.P.ir_classes:
                        self.local_classes[a.asname or a.name] = a.name

    def class_of_expr(self, e):
        """IR class name denoted by an expression (Port, sdn.Port, sdn.ir.Port, InnerPinExtended)"""
        if isinstance(e, ast.Name):
            if e.id in self.local_classes:
                return self.local_classes[e.id]
            if self.module is not None:
                tgt = self.module.imports.get(e.id)
                if tgt:
                    last = tgt.split(".")[-1]
                    if tgt.startswith("spydrnet") and last in self.P.ir_classes:
                        return last
                if e.id in self.module.classes and e.id in self.P.ir_classes and self.module.relpath.startswith("spydrnet/ir/"):
                    return e.id
            return None
        if isinstance(e, ast.Attribute) and e.attr in self.P.ir_classes:
            b = norm(e.value)
            if b in ("sdn", "spydrnet", "sdn.ir", "spydrnet.ir", "ir"):
                return e.attr
        return None

    # -- run ------------------------------------------------------------------------------
    def run(self):
        init = Env()
        params = [a.arg for a in self.node.args.posonlyargs + self.node.args.args]
        for i, p in enumerate(params):
            if i == 0 and p == "self" and self.self_kind:
                ks = expand(self.self_kind)
                # a method inherited by subclasses: self may be any concrete subclass
                init[p] = ("obj", ks)
            elif p in self.param_types:
                init[p] = self.param_types[p]
            else:
                init[p] = TOP
        for a in self.node.args.kwonlyargs:
            init[a.arg] = self.param_types.get(a.arg, TOP)
        self.state = forward(self.cfg, init, self._transfer, env_join)
        return self

    def env_at(self, cfg_node):
        return self.state.get(cfg_node.id, Env())

    # -- transfer ------------------------------------------------------------------------------
    MUTABLE_ATTRS = {"wire", "cable", "port", "definition", "parent", "reference", "library", "netlist",
                     "instance", "inner_pin", "pins", "wires", "ports", "cables", "children", "references",
                     "definitions", "libraries", "top_instance"}

    def _kill_paths(self, n, env):
        """narrowed attribute paths do not survive a store to that attribute, nor (for
        attributes backed by mutable IR fields) any call"""
        dotted = [k for k in env if "." in k]
        if not dotted:
            return env
        ex, tg = node_exprs(n)
        stored = set()
        for t in tg:
            for x in ast.walk(t):
                if isinstance(x, ast.Attribute) and isinstance(x.ctx, (ast.Store, ast.Del)):
                    stored.add(x.attr)
        has_call = any(isinstance(x, ast.Call) and norm(x.func) not in ("isinstance", "len", "set", "list", "all", "any", "zip", "str", "type")
                       for e in ex for x in ast.walk(e))
        kill = []
        for k in dotted:
            last = k.split(".")[-1]
            if last in stored or last.lstrip("_") in stored or (has_call and (last.startswith("_") or last in self.MUTABLE_ATTRS)):
                kill.append(k)
        if kill:
            env = env.copy()
            for k in kill:
                del env[k]
        return env

    def _transfer(self, n, env):
        out = self._transfer0(n, env)
        if n.kind in ("stmt", "with", "iter", "return"):
            if isinstance(out, Branch):
                return Branch({k: self._kill_paths(n, v) for k, v in out.items()})
            return self._kill_paths(n, out)
        return out

    def _transfer0(self, n, env):
        k = n.kind
        a = n.ast
        if k == "stmt":
            if isinstance(a, ast.Assign):
                t = self.type_of(a.value, env)
                env = env.copy()
                for tg in a.targets:
                    self._bind(tg, t, env, a.value)
                return env
            if isinstance(a, ast.AnnAssign) and a.value is not None:
                env = env.copy()
                self._bind(a.target, self.type_of(a.value, env), env, a.value)
                return env
            if isinstance(a, ast.AugAssign):
                env = env.copy()
                if isinstance(a.target, ast.Name):
                    cur = env.get(a.target.id)
                    add = self.type_of(a.value, env)
                    if cur is not None and cur != TOP and cur[0] in ("list", "iter"):
                        env[a.target.id] = ("list", join(cur[1], elem(add)))
                    else:
                        env[a.target.id] = TOP
                return env
            if isinstance(a, ast.Expr):
                return self._expr_effects(a.value, env)
            return env
        if k == "next":
            env = env.copy()
            it = self.type_of(a.iter, env)
            et = elem(it)
            if et is None and isinstance(a.target, ast.Name):
                # a container nothing has been put into yet (this point is visited before the loop that fills it has converged): the body
                # does not run for it — the variable keeps bottom, which the join with the later, filled state replaces
                env.pop(a.target.id, None)
                for k_ in [k_ for k_ in env if k_.startswith(a.target.id + ".")]:
                    del env[k_]
            else:
                self._bind(a.target, et, env, None)
            return Branch({"item": env, None: env})
        if k == "with":
            env = env.copy()
            for i in a.items:
                if i.optional_vars is not None:
                    self._bind(i.optional_vars, TOP, env, None)
            return env
        if k in ("test", "assert"):
            te, fe = self._narrow(a.test, env)
            return Branch({"true": te, "false": fe, None: env})
        if k == "handler":
            if a.name:
                env = env.copy()
                env[a.name] = TOP
            return env
        return env

    def _expr_effects(self, e, env):
        """x.append(v) / x.add(v) / x.extend(it) / x += ... grow the element type of local containers"""
        if isinstance(e, ast.Call) and isinstance(e.func, ast.Attribute) and isinstance(e.func.value, ast.Name):
            v = e.func.value.id
            cur = env.get(v)
            m = e.func.attr
            if cur is not None and cur != TOP and cur[0] in ("list", "set", "iter") and e.args:
                if m in ("append", "add", "appendleft"):
                    env = env.copy()
                    env[v] = (cur[0], join(cur[1], self.type_of(e.args[0], env)))
                elif m == "insert" and len(e.args) == 2:
                    env = env.copy()
                    env[v] = (cur[0], join(cur[1], self.type_of(e.args[1], env)))
                elif m in ("extend", "update"):
                    env = env.copy()
                    env[v] = (cur[0], join(cur[1], elem(self.type_of(e.args[0], env))))
        return env

    def _bind(self, target, t, env, value):
        if isinstance(target, ast.Name):
            env[target.id] = t if t is not None else TOP
            # kill narrowed paths rooted at this name
            for k in [k for k in env if k.startswith(target.id + ".")]:
                del env[k]
        elif isinstance(target, (ast.Tuple, ast.List)):
            if t is not None and t != TOP and t[0] == "tuple" and len(t[1]) == len(target.elts):
                for tg, tt in zip(target.elts, t[1]):
                    self._bind(tg, tt, env, None)
            else:
                for tg in target.elts:
                    self._bind(tg, TOP, env, None)
        elif isinstance(target, ast.Attribute):
            p = self._path(target)
            if p is not None:
                for k in [k for k in env if k == p or k.startswith(p + ".")]:
                    del env[k]
        elif isinstance(target, ast.Starred):
            self._bind(target.value, TOP, env, None)

    @staticmethod
    def _path(e):
        """dotted path of a Name / Name.attr(.attr)* expression, else None"""
        parts = []
        while isinstance(e, ast.Attribute):
            parts.append(e.attr)
            e = e.value
        if isinstance(e, ast.Name):
            parts.append(e.id)
            return ".".join(reversed(parts))
        return None

    # -- narrowing ----------------------------------------------------------------------------------
    def _narrow(self, test, env):
        """(env when test is true, env when test is false)"""
        if isinstance(test, ast.BoolOp):
            if isinstance(test.op, ast.And):
                te = env
                fes = []
                for v in test.values:
                    t1, f1 = self._narrow(v, te)
                    fes.append(f1)
                    te = t1
                fe = fes[0]
                for f in fes[1:]:
                    fe = env_join(fe, f)
                return te, fe
            else:
                fe = env
                tes = []
                for v in test.values:
                    t1, f1 = self._narrow(v, fe)
                    tes.append(t1)
                    fe = f1
                te = tes[0]
                for t in tes[1:]:
                    te = env_join(te, t)
                return te, fe
        if isinstance(test, ast.UnaryOp) and isinstance(test.op, ast.Not):
            t, f = self._narrow(test.operand, env)
            return f, t
        if isinstance(test, ast.Call) and norm(test.func) == "isinstance" and len(test.args) == 2:
            p = self._path(test.args[0])
            ks = self._classes_of(test.args[1])
            if p is not None and ks is not None:
                cur = self.type_of(test.args[0], env)
                te, fe = env.copy(), env.copy()
                if cur is not None and cur != TOP and cur[0] == "obj":
                    te[p] = ("obj", cur[1] & ks)
                    fe[p] = ("obj", cur[1] - ks)
                else:
                    te[p] = ("obj", ks)
                return te, fe
            if p is not None and self._is_href_class(test.args[1]):
                te = env.copy()
                cur = self.type_of(test.args[0], env)
                if not (cur is not None and cur != TOP and cur[0] == "href"):
                    te[p] = ("href", None)
                return te, env
            return env, env
        if isinstance(test, ast.Compare) and len(test.ops) == 1:
            l, r = test.left, test.comparators[0]
            op = test.ops[0]
            # x is None / x is not None / x == None
            if isinstance(op, (ast.Is, ast.IsNot, ast.Eq, ast.NotEq)):
                for a, b in ((l, r), (r, l)):
                    if isinstance(b, ast.Constant) and b.value is None:
                        p = self._path(a)
                        cur = self.type_of(a, env)
                        if p is not None and cur is not None and cur != TOP and cur[0] == "obj":
                            isn, notn = env.copy(), env.copy()
                            isn[p] = NONE
                            notn[p] = ("obj", cur[1] - {"None"})
                            if isinstance(op, (ast.Is, ast.Eq)):
                                return isn, notn
                            return notn, isn
                # type(x) is C / x.__class__ is C
                for a, b in ((l, r), (r, l)):
                    tgt = None
                    if isinstance(a, ast.Call) and norm(a.func) == "type" and len(a.args) == 1:
                        tgt = a.args[0]
                    elif isinstance(a, ast.Attribute) and a.attr == "__class__":
                        tgt = a.value
                    if tgt is not None:
                        p = self._path(tgt)
                        c = self.class_of_expr(b)
                        if p is not None and c in CONCRETE:
                            cur = self.type_of(tgt, env)
                            te, fe = env.copy(), env.copy()
                            te[p] = obj(c)
                            if cur is not None and cur != TOP and cur[0] == "obj":
                                fe[p] = ("obj", cur[1] - {c})
                            if isinstance(op, (ast.Is, ast.Eq)):
                                return te, fe
                            return fe, te
            return env, env
        # truthiness of an object value: `if x:` -> not None in the true branch
        p = self._path(test)
        if p is not None:
            cur = self.type_of(test, env)
            if cur is not None and cur != TOP and cur[0] == "obj" and "None" in cur[1]:
                te = env.copy()
                te[p] = ("obj", cur[1] - {"None"})
                return te, env
        return env, env

    def _is_href_class(self, e):
        return norm(e) in ("HRef", "sdn.HRef", "spydrnet.HRef", "sdn.util.HRef", "hierarchical_reference.HRef")

    def _classes_of(self, e):
        if isinstance(e, ast.Tuple):
            s = set()
            for x in e.elts:
                c = self.class_of_expr(x)
                if c is None:
                    return None
                s |= expand(c)
            return frozenset(s)
        c = self.class_of_expr(e)
        return expand(c) if c else None

    # -- expression types -----------------------------------------------------------------------
    def type_of(self, e, env):
        if e is None:
            return TOP
        if isinstance(e, ast.Constant):
            return NONE if e.value is None else TOP
        if isinstance(e, ast.Name):
            if e.id in env:
                return env[e.id]
            c = self.class_of_expr(e)
            if c:
                return ("class", c)
            return TOP
        if isinstance(e, ast.Attribute):
            p = self._path(e)
            if p is not None and p in env:
                return env[p]
            c = self.class_of_expr(e)
            if c:
                return ("class", c)
            bt = self.type_of(e.value, env)
            return self._attr_type(bt, e.attr, e, env)
        if isinstance(e, ast.Call):
            return self._call_type(e, env)
        if isinstance(e, ast.Subscript):
            bt = self.type_of(e.value, env)
            if bt is None or bt == TOP:
                return TOP
            if isinstance(e.slice, ast.Slice):
                return bt if bt[0] in ("list", "iter") else TOP
            if bt[0] in ("list", "iter"):
                return bt[1]
            if bt[0] in ("dict", "opview"):
                return bt[2]
            if bt[0] == "tuple" and isinstance(e.slice, ast.Constant) and isinstance(e.slice.value, int) and -len(bt[1]) <= e.slice.value < len(bt[1]):
                return bt[1][e.slice.value]
            return TOP
        if isinstance(e, (ast.List, ast.Set)):
            t = None
            for x in e.elts:
                t = join(t, self.type_of(x, env))
            return ("list" if isinstance(e, ast.List) else "set", t if t is not None else None) if t is not None else ("list" if isinstance(e, ast.List) else "set", None)
        if isinstance(e, ast.Tuple):
            return ("tuple", tuple(self.type_of(x, env) for x in e.elts))
        if isinstance(e, ast.IfExp):
            te, fe = self._narrow(e.test, env)
            return join(self.type_of(e.body, te), self.type_of(e.orelse, fe))
        if isinstance(e, ast.BoolOp):
            t = None
            for v in e.values:
                t = join(t, self.type_of(v, env))
            return t
        if isinstance(e, (ast.ListComp, ast.SetComp, ast.GeneratorExp)):
            env2 = env.copy()
            for g in e.generators:
                self._bind(g.target, elem(self.type_of(g.iter, env2)), env2, None)
                for c in g.ifs:
                    env2, _ = self._narrow(c, env2)
            kind = {"ListComp": "list", "SetComp": "set", "GeneratorExp": "iter"}[type(e).__name__]
            return (kind, self.type_of(e.elt, env2))
        if isinstance(e, ast.BinOp) and isinstance(e.op, ast.Add):
            a, b = self.type_of(e.left, env), self.type_of(e.right, env)
            if a is not None and b is not None and a != TOP and b != TOP and a[0] in ("list", "iter") and b[0] in ("list", "iter"):
                return ("list", join(a[1], b[1]))
            return TOP
        if isinstance(e, ast.NamedExpr):
            return self.type_of(e.value, env)
        if isinstance(e, ast.Starred):
            return TOP
        return TOP

    def _attr_type(self, bt, attr, node, env):
        if self.attr_hook is not None:
            r = self.attr_hook(self, bt, attr, node, env)
            if r is not None:
                return r
        if bt is None or bt == TOP:
            return TOP
        if bt[0] == "obj":
            ks = set(bt[1]) - {"None"}
            if not ks:
                return TOP
            if attr.startswith("_"):
                ft = field_type(self.P, ks, attr)
                return ft if ft is not None else TOP
            res = None
            for k in ks:
                t = self.prop_type(k, attr)
                if t is None:
                    return TOP
                res = join(res, t)
            return res if res is not None else TOP
        return TOP

    _prop_cache = {}

    def prop_type(self, kind, pname):
        """type of the public property `pname` on IR kind, derived from its getter body:
        `return self._f` or `return <View>(self._f)`"""
        key = (self.P.serial, kind, pname)
        if key in Typer._prop_cache:
            return Typer._prop_cache[key]
        res = None
        g = self.P.ir_lookup_prop(kind, pname, "getter")
        if g is not None:
            rets = [n for n in walk_local(g.node) if isinstance(n, ast.Return) and n.value is not None]
            if len(rets) == 1:
                v = rets[0].value
                view = None
                if isinstance(v, ast.Call) and len(v.args) == 1 and not v.keywords and isinstance(v.func, ast.Name):
                    view = v.func.id
                    v = v.args[0]
                if isinstance(v, ast.Attribute) and isinstance(v.value, ast.Name) and v.value.id == "self" and v.attr.startswith("_"):
                    ft = field_type(self.P, [kind], v.attr)
                    if ft is not None:
                        if view == "OuterPinsView" and ft[0] == "dict":
                            ft = ("opview", ft[1], ft[2])
                        res = ft
        Typer._prop_cache[key] = res
        return res

    def _call_type(self, e, env):
        if self.call_hook is not None:
            r = self.call_hook(self, e, env)
            if r is not None:
                return r
        f = e.func
        fn = norm(f)
        # constructors
        c = self.class_of_expr(f)
        if c in CONCRETE:
            return obj(c)
        if fn in ("list", "sorted", "reversed", "tuple", "copy", "copy.copy", "iter") and e.args:
            t = self.type_of(e.args[0], env)
            if t is not None and t != TOP and t[0] in ("list", "set", "iter", "dict", "opview"):
                if fn in ("copy", "copy.copy"):
                    return t
                return ("list", elem(t))
            return TOP
        if fn in ("set", "frozenset"):
            if not e.args:
                return ("set", None)
            t = self.type_of(e.args[0], env)
            return ("set", elem(t)) if t is not None and t != TOP else TOP
        if fn in ("OrderedDict", "dict") and not e.args and not e.keywords:
            return ("dict", None, None)
        if fn in ("chain", "itertools.chain") and e.args:
            t = None
            for a in e.args:
                ta = self.type_of(a, env)
                if ta is None or ta == TOP or ta[0] not in ("list", "set", "iter", "dict", "opview"):
                    return TOP
                t = join(t, elem(ta))
            return ("iter", t)
        if fn in ("map",) and len(e.args) == 2 and isinstance(e.args[0], ast.Lambda) and len(e.args[0].args.args) == 1:
            # map(lambda x: <expr>, seq): type of <expr> with x bound to the element type
            ta = self.type_of(e.args[1], env)
            if ta is None or ta == TOP:
                return TOP
            env2 = env.copy()
            env2[e.args[0].args.args[0].arg] = elem(ta)
            return ("iter", self.type_of(e.args[0].body, env2))
        if fn in ("zip", "product", "itertools.product", "zip_longest", "itertools.zip_longest"):
            return ("iter", ("tuple", tuple(elem(self.type_of(a, env)) for a in e.args)))
        if fn == "enumerate" and e.args:
            return ("iter", ("tuple", (TOP, elem(self.type_of(e.args[0], env)))))
        if fn == "next" and e.args:
            t = elem(self.type_of(e.args[0], env))
            if len(e.args) == 2:
                t = join(t, self.type_of(e.args[1], env))
            return t
        if fn in ("filter",) and len(e.args) == 2:
            t = self.type_of(e.args[1], env)
            return ("iter", elem(t)) if t != TOP else TOP
        if fn in ("ListView", "SetView", "DictView") and len(e.args) == 1:
            return self.type_of(e.args[0], env)
        if fn == "OuterPinsView" and len(e.args) == 1:
            t = self.type_of(e.args[0], env)
            return ("opview", t[1], t[2]) if t != TOP and t is not None and t[0] == "dict" else TOP
        if fn in ("OuterPin.from_instance_and_inner_pin", "sdn.OuterPin.from_instance_and_inner_pin"):
            return obj("OuterPin")
        if isinstance(f, ast.Attribute):
            bt = self.type_of(f.value, env)
            m = f.attr
            if bt is not None and bt != TOP:
                if bt[0] in ("dict", "opview"):
                    if m == "values":
                        return ("iter", bt[2])
                    if m == "keys":
                        return ("iter", bt[1])
                    if m == "items":
                        return ("iter", ("tuple", (bt[1], bt[2])))
                    if m in ("pop", "get", "setdefault"):
                        t = bt[2]
                        if m == "get":
                            t = join(t, self.type_of(e.args[1], env) if len(e.args) > 1 else NONE)
                        return t
                    if m == "copy":
                        return bt
                if bt[0] in ("list", "set", "iter"):
                    if m in ("pop",):
                        return bt[1]
                    if m in ("copy", "union", "difference", "intersection"):
                        return bt
                if bt[0] == "obj":
                    ks = set(bt[1]) - {"None"}
                    res = None
                    for k in ks:
                        t = self.method_ret(k, m)
                        if t is None:
                            if self._abstract(k, m):
                                continue  # the base class only declares it (raise NotImplementedError): the subclasses answer
                            return TOP
                        res = join(res, t)
                    return res if res is not None else TOP
        return TOP

    def _abstract(self, kind, mname):
        m = self.P.ir_lookup_method(kind, mname)
        if m is None:
            return False
        body = [x for x in m.node.body if not (isinstance(x, ast.Expr) and isinstance(x.value, ast.Constant))]
        return len(body) == 1 and isinstance(body[0], ast.Raise) and "NotImplementedError" in norm(body[0])

    _ret_cache = {}

    def method_ret(self, kind, mname):
        """return type of an IR method: create_* style (returns a local built by a
        constructor), or a private field / view of it.  None = unknown."""
        key = (self.P.serial, kind, mname)
        if key in Typer._ret_cache:
            return Typer._ret_cache[key]
        Typer._ret_cache[key] = None  # recursion guard
        res = None
        m = self.P.ir_lookup_method(kind, mname)
        if m is not None and not any(isinstance(n, (ast.Yield, ast.YieldFrom)) for n in walk_local(m.node)):
            rets = [n for n in walk_local(m.node) if isinstance(n, ast.Return) and n.value is not None]
            if rets:
                owner = m.cls.name
                ty = Typer(self.P, m, self_kind=owner).run()
                for r in rets:
                    envs = [ty.env_at(cn) for cn in ty.cfg.nodes if cn.ast is r and cn.id in ty.state]
                    if not envs:
                        continue
                    t = ty.type_of(r.value, envs[0])
                    res = join(res, t)
                if res == TOP:
                    res = None
        Typer._ret_cache[key] = res
        return res


def typer_for(P, func, **kw):
    sk = None
    if func.cls is not None and func.cls.name in P.ir_classes and func.module.relpath.startswith("spydrnet/ir/") \
            and func.role != "static":
        sk = func.cls.name
    return Typer(P, func, self_kind=sk, **kw).run()
