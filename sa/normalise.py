"""Load-time normalisation of the source tree: spellings of one and the same check are read as one construct, so that no rule
depends on which spelling a maintainer prefers.

  if <c>: raise AssertionError(<msg>)                 ->  assert not <c>, <msg>
  _require(<c>, <msg>)   where _require is a helper   ->  assert <c>, <msg>
      whose whole body is `if not p: raise AssertionError(m)`

Both rewrites keep the line numbers of the original statement.  (They differ from the original only under `python -O`, which
the analysis assumes is not used: asserts are the library's documented precondition mechanism.)"""
import ast


def _is_assertion_raise(st):
    if not (isinstance(st, ast.Raise) and st.exc is not None and st.cause is None):
        return None
    e = st.exc
    if isinstance(e, ast.Name) and e.id == "AssertionError":
        return ()
    if isinstance(e, ast.Call) and isinstance(e.func, ast.Name) and e.func.id == "AssertionError" and not e.keywords and len(e.args) <= 1:
        return tuple(e.args)
    return None


def _negate(t):
    if isinstance(t, ast.UnaryOp) and isinstance(t.op, ast.Not):
        return t.operand
    if isinstance(t, ast.Compare) and len(t.ops) == 1:
        flip = {ast.Is: ast.IsNot, ast.IsNot: ast.Is, ast.Eq: ast.NotEq, ast.NotEq: ast.Eq, ast.In: ast.NotIn, ast.NotIn: ast.In}
        k = type(t.ops[0])
        if k in flip:
            return ast.copy_location(ast.Compare(left=t.left, ops=[flip[k]()], comparators=t.comparators), t)
    return ast.copy_location(ast.UnaryOp(op=ast.Not(), operand=t), t)


def _require_helpers(tree):
    """functions whose body is `if not <p>: raise AssertionError(<m>)` (docstring allowed): name -> (index of p, index of m or None),
    indices counted without `self`"""
    out = {}
    for fn in ast.walk(tree):
        if not isinstance(fn, ast.FunctionDef):
            continue
        body = [s for s in fn.body if not (isinstance(s, ast.Expr) and isinstance(s.value, ast.Constant))]
        if len(body) != 1 or not isinstance(body[0], ast.If) or body[0].orelse or len(body[0].body) != 1:
            continue
        args = _is_assertion_raise(body[0].body[0])
        if args is None:
            continue
        params = [a.arg for a in fn.args.args]
        if params and params[0] in ("self", "cls"):
            params = params[1:]
        t = body[0].test
        if not (isinstance(t, ast.UnaryOp) and isinstance(t.op, ast.Not) and isinstance(t.operand, ast.Name) and t.operand.id in params):
            continue
        mi = None
        if args:
            if isinstance(args[0], ast.Name) and args[0].id in params:
                mi = params.index(args[0].id)
            elif isinstance(args[0], ast.Call) and not args[0].args and isinstance(args[0].func, ast.Name) and args[0].func.id in params:
                mi = params.index(args[0].func.id)  # lazily built message: m()
            else:
                continue
        out[fn.name] = (params.index(t.operand.id), mi)
    return out


def normalise(tree):
    helpers = _require_helpers(tree)

    class T(ast.NodeTransformer):
        def visit_If(self, n):
            self.generic_visit(n)
            if not n.orelse and len(n.body) == 1:
                args = _is_assertion_raise(n.body[0])
                if args is not None:
                    a = ast.Assert(test=_negate(n.test), msg=args[0] if args else None)
                    return ast.copy_location(a, n)
            return n

        def visit_Expr(self, n):
            self.generic_visit(n)
            c = n.value
            if isinstance(c, ast.Call) and not c.keywords:
                name = c.func.id if isinstance(c.func, ast.Name) else (c.func.attr if isinstance(c.func, ast.Attribute) and isinstance(c.func.value, ast.Name)
                                                                        and c.func.value.id in ("self", "cls") else None)
                if name in helpers:
                    pi, mi = helpers[name]
                    if pi < len(c.args) and (mi is None or mi < len(c.args)) and not any(isinstance(a, ast.Starred) for a in c.args):
                        a = ast.Assert(test=c.args[pi], msg=c.args[mi] if mi is not None else None)
                        return ast.copy_location(a, n)
            return n
    tree = T().visit(tree)
    ast.fix_missing_locations(tree)
    return tree
