"""Load-time normalisation of the source tree: spellings of one and the same check are read as one construct, so that no rule
depends on which spelling a maintainer prefers.

  match s: case C(): … case "x": … case _: …          ->  if isinstance(s, C): … elif s == "x": … else: …   (patterns with an exact expression form)
  with contextlib.suppress(E): BODY                   ->  try: BODY except E: pass
  @_guard def f(…): BODY   where the private decorator ->  def f(…): PRE; BODY [; POST on every normal way out]
      only runs PRE, calls f with its arguments unchanged [, runs POST] and returns the result
  NAME = "literal" at module level (bound once)        ->  the literal, wherever NAME is read (tuples / frozensets in loops and `in` tests)
  a, b = x.f, y.g                                      ->  a = x.f; b = y.g
  try: x = D[k]  except KeyError: A  else: B           ->  if k in D: x = D[k]; B  else: A      (also return D[k], D[k].append(v))
  with self._h(a…): BODY   where _h is a private       ->  PRE; BODY; POST      (try: BODY finally: POST when _h has one)
      @contextmanager generator  PRE; yield; POST
  if <c>: raise AssertionError(<msg>)                 ->  assert not <c>, <msg>
  _require(<c>, <msg>)   where _require is a helper   ->  assert <c>, <msg>
      that does nothing but raise AssertionError exactly when its parameter is false (decided by path enumeration; the
      helper may live in a sibling module, be a method, build its message lazily)
  filter(f, S) / map(f, S)                            ->  (x for x in S if f(x)) / (f(x) for x in S)
  all(map(f, S)) / any(map(f, S))                     ->  all(f(_each) for _each in S)
  not any(E for x in S)                               ->  all(not E for x in S)
  if (x := E) is not None: …                          ->  x = E; if x is not None: …     (walrus evaluated first in the test)
  x = A if c else B  /  return A if c else B          ->  if c: x = A else: x = B  /  if c: return A else: return B
  for x in (A if c else ()): BODY                     ->  if c: for x in A: BODY
  for a in chain.from_iterable(E for x in IT): BODY   ->  for x in IT: for a in E: BODY
  for a, b in product(X, Y): BODY                     ->  for a in X: for b in Y: BODY     (X, Y plain reads BODY does not mention)
  X.extend(E for v in IT if C) / X += [E for …]       ->  for v in IT: if C: X.append(E)        (S.update(…) -> S.add, D.update(pairs) -> D[k] = v)
  NAME = make(a…)   where make only defines and       ->  def NAME(…): <the inner function's body with make's parameters replaced>
      returns one inner function

Both rewrites keep the line numbers of the original statement.  (They differ from the original only under `python -O`, which
the analysis assumes is not used: asserts are the library's documented precondition mechanism.)"""
import ast


def _is_assertion_raise(st):
    if not (isinstance(st, ast.Raise) and st.exc is not None and st.cause is None):
        return None
    e = st.exc
    if isinstance(e, ast.Name) and e.id == "AssertionError":
        return ()
    if isinstance(e, ast.Call) and isinstance(e.func, ast.Name) and e.func.id == "AssertionError" and not e.keywords and len(e.args) <= 1:
        return tuple(e.args)
    return None


def _negate(t):
    if isinstance(t, ast.UnaryOp) and isinstance(t.op, ast.Not):
        return t.operand
    if isinstance(t, ast.Compare) and len(t.ops) == 1:
        flip = {ast.Is: ast.IsNot, ast.IsNot: ast.Is, ast.Eq: ast.NotEq, ast.NotEq: ast.Eq, ast.In: ast.NotIn, ast.NotIn: ast.In}
        k = type(t.ops[0])
        if k in flip:
            return ast.copy_location(ast.Compare(left=t.left, ops=[flip[k]()], comparators=t.comparators), t)
    return ast.copy_location(ast.UnaryOp(op=ast.Not(), operand=t), t)


def _require_helpers(tree, nodes=None):
    """functions that do nothing but refuse with AssertionError unless one of their parameters is true: name -> (index of that
    parameter, index of the message parameter or None), indices counted without `self`.  Recognised by path enumeration: every
    path that raises does so with AssertionError and only when the parameter is false, every path that ends normally needs it
    true, and the body contains nothing but ifs, returns and raises."""
    from .paths import stmt_paths
    out = {}
    for fn in (nodes if nodes is not None else ast.walk(tree)):
        if not isinstance(fn, ast.FunctionDef):
            continue
        body = [s for s in fn.body if not (isinstance(s, ast.Expr) and isinstance(s.value, ast.Constant))]
        if not body or len(body) > 4 or not all(isinstance(s, (ast.If, ast.Return, ast.Raise)) for s in body):
            continue
        if any(not isinstance(x, (ast.If, ast.Return, ast.Raise)) for s in body for x in ast.walk(s) if isinstance(x, ast.stmt)):
            continue
        raises = [x for s in body for x in ast.walk(s) if isinstance(x, ast.Raise)]
        if not raises or any(_is_assertion_raise(r) is None and not (
                isinstance(r.exc, ast.Call) and isinstance(r.exc.func, ast.Name) and r.exc.func.id == "AssertionError") for r in raises):
            continue
        if any(isinstance(x, ast.Return) and x.value is not None for s in body for x in ast.walk(s)):
            continue
        params = [a.arg for a in fn.args.args]
        if params and params[0] in ("self", "cls"):
            params = params[1:]
        paths = list(stmt_paths(body, frozenset(), {}, None))
        if any(oc is None for oc, fa, df in paths):
            continue
        for pi, p in enumerate(params):
            ok = True
            for oc, fa, df in paths:
                if oc == "raise":
                    ok = ok and ("falsy(%s)" % p) in fa
                else:
                    ok = ok and ("truthy(%s)" % p) in fa
            if ok and paths:
                mi = None
                for r in raises:
                    for x in ast.walk(r):
                        if isinstance(x, ast.Name) and x.id in params and x.id != p and mi is None:
                            mi = params.index(x.id)
                out[fn.name] = (pi, mi)
                break
    return out


GLOBAL_CONTEXTS = {}  # name -> (parameters without self, PRE statements, POST statements, POST runs in a finally clause)


def _context_helpers(tree):
    """private context managers written as generators:   @contextmanager def _h(self, a): PRE; yield; POST
       (or PRE; try: yield finally: POST)"""
    out = {}
    for fn in ast.walk(tree):
        if not isinstance(fn, ast.FunctionDef) or not any((d.id if isinstance(d, ast.Name) else getattr(d, "attr", None)) == "contextmanager" for d in fn.decorator_list):
            continue
        body = [s_ for s_ in fn.body if not (isinstance(s_, ast.Expr) and isinstance(s_.value, ast.Constant))]
        k = next((i for i, s_ in enumerate(body) if (isinstance(s_, ast.Expr) and isinstance(s_.value, ast.Yield)) or
                  (isinstance(s_, ast.Try) and len(s_.body) == 1 and isinstance(s_.body[0], ast.Expr) and isinstance(s_.body[0].value, ast.Yield)
                   and not s_.handlers and not s_.orelse)), None)
        if k is None:
            continue
        y = body[k]
        pre, post, fin = body[:k], body[k + 1:], False
        if isinstance(y, ast.Try):
            if post:
                continue
            post, fin = list(y.finalbody), True
            y = y.body[0]
        if y.value.value is not None:
            continue  # something is handed to `as`
        if any(isinstance(x, (ast.Yield, ast.YieldFrom, ast.Return, ast.FunctionDef, ast.Lambda)) for s_ in pre + post for x in ast.walk(s_)):
            continue
        a = fn.args
        if a.vararg or a.kwarg or a.kwonlyargs or a.defaults:
            continue
        params = [p.arg for p in a.args]
        out[fn.name] = (params, pre, post, fin)
    return out


GLOBAL_DECORATORS = {}  # name -> (wrapper's named parameters, statements it runs before calling the function)


def _guard_decorators(tree):
    """private decorators that only put statements in front of the function:
         def _deco(fn):
             @wraps(fn)
             def wrapper(self, x, *args, **kwargs):
                 PRE
                 return fn(self, x, *args, **kwargs)
             return wrapper"""
    out = {}
    for fn in ast.walk(tree):
        if not isinstance(fn, ast.FunctionDef) or len(fn.args.args) != 1 or fn.args.vararg or fn.args.kwarg:
            continue
        body = [s_ for s_ in fn.body if not (isinstance(s_, ast.Expr) and isinstance(s_.value, ast.Constant))]
        if not (len(body) == 2 and isinstance(body[0], ast.FunctionDef) and isinstance(body[1], ast.Return) and isinstance(body[1].value, ast.Name)
                and body[1].value.id == body[0].name):
            continue
        w, wrapped = body[0], fn.args.args[0].arg
        wb = [s_ for s_ in w.body if not (isinstance(s_, ast.Expr) and isinstance(s_.value, ast.Constant))]
        post = []
        if wb and isinstance(wb[-1], ast.Return) and isinstance(wb[-1].value, ast.Name):
            # bracket form: PRE; result = fn(…); POST; return result
            rn = wb[-1].value.id
            k = next((i_ for i_, s_ in enumerate(wb) if isinstance(s_, ast.Assign) and len(s_.targets) == 1 and isinstance(s_.targets[0], ast.Name)
                      and s_.targets[0].id == rn and isinstance(s_.value, ast.Call) and isinstance(s_.value.func, ast.Name) and s_.value.func.id == wrapped), None)
            if k is None or any(isinstance(x, ast.Name) and x.id == rn for s_ in wb[k + 1:-1] for x in ast.walk(s_)):
                continue
            post = wb[k + 1:-1]
            wb = wb[:k] + [ast.copy_location(ast.Return(value=wb[k].value), wb[k])]
        if not wb or not (isinstance(wb[-1], ast.Return) and isinstance(wb[-1].value, ast.Call) and isinstance(wb[-1].value.func, ast.Name)
                          and wb[-1].value.func.id == wrapped):
            continue
        named = [a.arg for a in w.args.args]
        call = wb[-1].value
        # the call hands everything on unchanged: named parameters in order, then *args / **kwargs
        pos = [a for a in call.args if not isinstance(a, ast.Starred)]
        if [a.id if isinstance(a, ast.Name) else None for a in pos] != named:
            continue
        if w.args.vararg and not any(isinstance(a, ast.Starred) and isinstance(a.value, ast.Name) and a.value.id == w.args.vararg.arg for a in call.args):
            continue
        if w.args.kwarg and not any(k.arg is None and isinstance(k.value, ast.Name) and k.value.id == w.args.kwarg.arg for k in call.keywords):
            continue
        pre = wb[:-1]
        banned = {wrapped} | ({w.args.vararg.arg} if w.args.vararg else set()) | ({w.args.kwarg.arg} if w.args.kwarg else set())
        if any(isinstance(x, ast.Name) and x.id in banned for s_ in pre + post for x in ast.walk(s_)):
            continue
        if any(isinstance(x, (ast.FunctionDef, ast.Lambda, ast.Return, ast.Yield, ast.YieldFrom)) for s_ in pre + post for x in ast.walk(s_)):
            continue
        out[fn.name] = (named, pre, post)
    return out


def _apply_guard_decorators(tree, decos):
    from .core import copy_tree
    from .unroll import _Sub
    changed = False
    for f in ast.walk(tree):
        if not isinstance(f, ast.FunctionDef) or not f.decorator_list:
            continue
        keep = []
        for d in f.decorator_list:
            nm = d.id if isinstance(d, ast.Name) else (d.attr if isinstance(d, ast.Attribute) else None)
            if nm in decos and not (f.args.vararg or f.args.kwonlyargs):
                named, pre, post = decos[nm]
                params = [a.arg for a in f.args.args]
                if post and any(isinstance(x, (ast.Yield, ast.YieldFrom)) for x in ast.walk(f)):
                    keep.append(d)
                    continue
                if len(named) <= len(params):
                    m = {w_: ast.Name(id=p_, ctx=ast.Load()) for w_, p_ in zip(named, params) if w_ != p_}
                    stmts = [copy_tree(s_) for s_ in pre]
                    if m:
                        stmts = [_Sub(m).visit(s_) for s_ in stmts]
                    for s_ in stmts:
                        for x in ast.walk(s_):
                            if hasattr(x, "lineno"):
                                x.lineno = x.end_lineno = f.lineno
                    doc = [f.body[0]] if f.body and isinstance(f.body[0], ast.Expr) and isinstance(f.body[0].value, ast.Constant) and isinstance(f.body[0].value.value, str) else []
                    body = f.body[len(doc):]
                    if post:
                        # what the wrapper does after the call runs on every normal way out of the body: before each return (the value is
                        # computed first) and after the last statement
                        pst = [copy_tree(s_) for s_ in post]
                        if m:
                            pst = [_Sub(m).visit(s_) for s_ in pst]
                        for s_ in pst:
                            for x in ast.walk(s_):
                                if hasattr(x, "lineno"):
                                    x.lineno = x.end_lineno = f.lineno
                        cnt = [0]

                        def ret_block(stmts_):
                            out_ = []
                            for s_ in stmts_:
                                if isinstance(s_, ast.Return):
                                    if s_.value is None or isinstance(s_.value, (ast.Constant, ast.Name)):
                                        out_.extend([copy_tree(p_) for p_ in pst] + [s_])
                                    else:
                                        cnt[0] += 1
                                        rn_ = "result__w%d" % cnt[0]
                                        out_.append(ast.copy_location(ast.Assign(targets=[ast.Name(id=rn_, ctx=ast.Store())], value=s_.value), s_))
                                        out_.extend(copy_tree(p_) for p_ in pst)
                                        out_.append(ast.copy_location(ast.Return(value=ast.Name(id=rn_, ctx=ast.Load())), s_))
                                    continue
                                for fld in ("body", "orelse", "finalbody"):
                                    sub = getattr(s_, fld, None)
                                    if isinstance(sub, list) and sub and isinstance(sub[0], ast.stmt) and not isinstance(s_, (ast.FunctionDef, ast.AsyncFunctionDef, ast.ClassDef)):
                                        setattr(s_, fld, ret_block(sub))
                                for h_ in getattr(s_, "handlers", []) or []:
                                    h_.body = ret_block(h_.body)
                                out_.append(s_)
                            return out_
                        body = ret_block(body)
                        if not (body and isinstance(body[-1], (ast.Return, ast.Raise))):
                            body = body + [copy_tree(p_) for p_ in pst]
                        for s_ in body:
                            ast.fix_missing_locations(s_)
                    f.body = doc + stmts + body
                    changed = True
                    continue
            keep.append(d)
        f.decorator_list = keep
    return changed


def _inline_single_use_iterators(tree):
    """pairs = chain.from_iterable(…) / zip(…) / (… for …)   immediately followed by   for v in pairs:   with `pairs` used nowhere else
    ->  for v in <the expression>:"""
    changed = False
    for fn in ast.walk(tree):
        if not isinstance(fn, (ast.FunctionDef, ast.AsyncFunctionDef)):
            continue
        uses = {}
        for x in ast.walk(fn):
            if isinstance(x, ast.Name):
                uses[x.id] = uses.get(x.id, 0) + 1

        def block(stmts):
            nonlocal changed
            i = 0
            while i + 1 < len(stmts):
                a, b = stmts[i], stmts[i + 1]
                if isinstance(a, ast.Assign) and len(a.targets) == 1 and isinstance(a.targets[0], ast.Name) and uses.get(a.targets[0].id) == 2 \
                        and isinstance(b, ast.For) and isinstance(b.iter, ast.Name) and b.iter.id == a.targets[0].id \
                        and (isinstance(a.value, ast.GeneratorExp) or (isinstance(a.value, ast.Call) and (
                            (isinstance(a.value.func, ast.Attribute) and a.value.func.attr in ("from_iterable",)) or
                            (isinstance(a.value.func, ast.Name) and a.value.func.id in ("zip", "chain", "enumerate", "reversed", "product", "map", "filter")) or
                            # a stage of a pipeline of private helpers: stages = self._pairs(self._wires(a, b))
                            (isinstance(a.value.func, (ast.Attribute, ast.Name)) and (a.value.func.attr if isinstance(a.value.func, ast.Attribute) else a.value.func.id).startswith("_")
                             and any(isinstance(x, ast.Call) for x in a.value.args))))):
                    b.iter = a.value
                    del stmts[i]
                    changed = True
                    continue
                i += 1
            for st in stmts:
                for fld in ("body", "orelse", "finalbody"):
                    sub = getattr(st, fld, None)
                    if isinstance(sub, list) and sub and isinstance(sub[0], ast.stmt) and not isinstance(st, (ast.FunctionDef, ast.AsyncFunctionDef, ast.ClassDef)):
                        block(sub)
                for h in getattr(st, "handlers", []) or []:
                    block(h.body)
        block(fn.body)
    return changed


def _desugar_match(tree):
    """match <subject>: case …   ->   if / elif chain, for the patterns that have an exact expression form:
         case C():                isinstance(s, C)            case C() | D():        isinstance(s, (C, D))
         case "lit" / 3:          s == "lit"                  case None / True:      s is None
         case mod.NAME:           s == mod.NAME               case C(attr=<such>):   isinstance(s, C) and <s.attr matches>
         case <name>:             always (binds name = s)     case _:                always
         case … if guard:         … and guard
    A match with any other pattern (sequences, mappings, captures inside class patterns, `as`) is left alone.  A subject that is not a
    plain name is evaluated once into a local first."""
    from .core import copy_tree
    changed = [False]
    counter = [0]

    def test_of(pat, subj):
        """expression that is true exactly when `pat` matches `subj` (no bindings), or None"""
        name = pat.__class__.__name__
        if name == "MatchValue":
            return ast.Compare(left=copy_tree(subj), ops=[ast.Eq()], comparators=[pat.value])
        if name == "MatchSingleton":
            return ast.Compare(left=copy_tree(subj), ops=[ast.Is()], comparators=[ast.Constant(value=pat.value)])
        if name == "MatchClass":
            if pat.patterns:
                return None
            t = ast.Call(func=ast.Name(id="isinstance", ctx=ast.Load()), args=[copy_tree(subj), pat.cls], keywords=[])
            parts = [t]
            for attr, sub in zip(pat.kwd_attrs, pat.kwd_patterns):
                st = test_of(sub, ast.Attribute(value=copy_tree(subj), attr=attr, ctx=ast.Load()))
                if st is None:
                    return None
                if not (isinstance(st, ast.Constant) and st.value is True):
                    parts.append(st)
            return parts[0] if len(parts) == 1 else ast.BoolOp(op=ast.And(), values=parts)
        if name == "MatchOr":
            subs = [test_of(p_, subj) for p_ in pat.patterns]
            if any(x is None for x in subs):
                return None
            # isinstance(s, A) or isinstance(s, B)  ->  isinstance(s, (A, B))
            if all(isinstance(x, ast.Call) and isinstance(x.func, ast.Name) and x.func.id == "isinstance" for x in subs):
                return ast.Call(func=ast.Name(id="isinstance", ctx=ast.Load()), args=[copy_tree(subj), ast.Tuple(elts=[x.args[1] for x in subs], ctx=ast.Load())], keywords=[])
            return ast.BoolOp(op=ast.Or(), values=subs)
        if name == "MatchAs" and pat.pattern is None:
            if pat.name is not None:
                binds.append((pat.name, copy_tree(subj)))
            return ast.Constant(value=True)
        if name == "MatchSequence" and isinstance(subj, ast.Tuple) and len(subj.elts) == len(pat.patterns) \
                and not any(p_.__class__.__name__ == "MatchStar" for p_ in pat.patterns):
            # a tuple built on the spot matched element by element: match (a, b): case (None, x): …
            parts = []
            for p_, e_ in zip(pat.patterns, subj.elts):
                t_ = test_of(p_, e_)
                if t_ is None:
                    return None
                if not (isinstance(t_, ast.Constant) and t_.value is True):
                    parts.append(t_)
            if not parts:
                return ast.Constant(value=True)
            return parts[0] if len(parts) == 1 else ast.BoolOp(op=ast.And(), values=parts)
        return None

    binds = []

    def rewrite(m):
        pre = []
        subj = m.subject
        if isinstance(subj, ast.Tuple) and all(isinstance(e_, (ast.Name, ast.Attribute, ast.Constant)) for e_ in subj.elts):
            pass  # matched element by element; plain reads may be repeated
        elif not isinstance(subj, ast.Name):
            counter[0] += 1
            nm = "subject__m%d" % counter[0]
            pre = [ast.copy_location(ast.Assign(targets=[ast.Name(id=nm, ctx=ast.Store())], value=subj), m)]
            subj = ast.copy_location(ast.Name(id=nm, ctx=ast.Load()), m)
        branches = []
        from .unroll import _Sub
        for c in m.cases:
            del binds[:]
            t = test_of(c.pattern, subj)
            if t is None:
                return None
            body = list(c.body)
            captured = list(binds)
            if captured:
                # captures bind when the case is taken; the guard reads them as the sub-expressions they stand for
                body = [ast.copy_location(ast.Assign(targets=[ast.Name(id=n_, ctx=ast.Store())], value=v_), m) for n_, v_ in captured] + body
            guard = c.guard
            if guard is not None and captured:
                guard = _Sub({n_: v_ for n_, v_ in captured}).visit(copy_tree(guard))
            if guard is not None:
                t = guard if (isinstance(t, ast.Constant) and t.value is True) else ast.BoolOp(op=ast.And(), values=[t, guard])
            branches.append((t, body))
        node = []
        for t, body in reversed(branches):
            if isinstance(t, ast.Constant) and t.value is True:
                node = body
            else:
                node = [ast.copy_location(ast.If(test=t, body=body, orelse=node), m)]
        out = pre + (node or [ast.copy_location(ast.Pass(), m)])
        for x in out:
            ast.fix_missing_locations(x)
        changed[0] = True
        return out

    def block(stmts):
        i = 0
        while i < len(stmts):
            st = stmts[i]
            for fld in ("body", "orelse", "finalbody"):
                sub = getattr(st, fld, None)
                if isinstance(sub, list) and sub and isinstance(sub[0], ast.stmt):
                    block(sub)
            for h in getattr(st, "handlers", []) or []:
                block(h.body)
            if st.__class__.__name__ == "Match":
                for c in st.cases:
                    block(c.body)
                r = rewrite(st)
                if r is not None:
                    stmts[i:i + 1] = r
                    i += len(r)
                    continue
            i += 1
    block(tree.body)
    return changed[0]


def _desugar_bulk(tree, nodes):
    """a statement that feeds a comprehension straight into a container is read as the loop it abbreviates:
         X.extend(E for v in IT if C) / X += [E for v in IT if C]   ->  for v in IT: if C: X.append(E)
         S.update(E for v in IT) / S |= {E for v in IT}              ->  for v in IT: S.add(E)
         D.update((K, V) for v in IT)                                ->  for v in IT: D[K] = V
    (X a plain name / attribute chain; a list comprehension that reads X itself is left alone: it is evaluated before X grows)"""
    from .core import copy_tree, norm
    from .unroll import _simple, _Sub
    changed = [False]
    counter = [0]

    def comp_of(st):
        """(receiver, kind, comprehension) or None"""
        if isinstance(st, ast.Expr) and isinstance(st.value, ast.Call) and isinstance(st.value.func, ast.Attribute) and len(st.value.args) == 1 \
                and not st.value.keywords and st.value.func.attr in ("extend", "update") and _simple(st.value.func.value):
            return st.value.func.value, st.value.func.attr, st.value.args[0]
        if isinstance(st, ast.AugAssign) and isinstance(st.op, ast.Add) and _simple(st.target):
            return st.target, "extend", st.value
        if isinstance(st, ast.AugAssign) and isinstance(st.op, ast.BitOr) and _simple(st.target) and isinstance(st.value, ast.SetComp):
            return st.target, "update", st.value
        return None

    def rewrite(st, used):
        r = comp_of(st)
        if r is None:
            return None
        recv, kind, comp = r
        if not isinstance(comp, (ast.GeneratorExp, ast.ListComp, ast.SetComp)):
            return None
        if kind == "extend" and isinstance(comp, ast.SetComp):
            return None
        recv_txt = norm(recv)
        if not isinstance(comp, ast.GeneratorExp) and any(norm(x) == recv_txt for x in ast.walk(comp) if isinstance(x, (ast.Name, ast.Attribute))):
            return None
        if any(g.is_async for g in comp.generators):
            return None
        load = copy_tree(recv)
        for x in ast.walk(load):
            if hasattr(x, "ctx"):
                x.ctx = ast.Load()
        # comprehension variables become locals of the function: rename those that already mean something there
        ren = {}
        for g in comp.generators:
            for t in ast.walk(g.target):
                if isinstance(t, ast.Name) and t.id in used:
                    counter[0] += 1
                    ren[t.id] = "%s__c%d" % (t.id, counter[0])
        comp = copy_tree(comp)
        if ren:
            class R(ast.NodeTransformer):
                def visit_Name(self, n):
                    if n.id in ren:
                        return ast.copy_location(ast.Name(id=ren[n.id], ctx=n.ctx), n)
                    return n
            comp = R().visit(comp)
        elt = comp.elt
        if kind == "extend":
            inner = ast.Expr(value=ast.Call(func=ast.Attribute(value=load, attr="append", ctx=ast.Load()), args=[elt], keywords=[]))
        elif isinstance(elt, ast.Tuple) and len(elt.elts) == 2 and isinstance(comp, ast.GeneratorExp):
            # pairs fed to update(): a mapping
            inner = ast.Assign(targets=[ast.Subscript(value=load, slice=elt.elts[0], ctx=ast.Store())], value=elt.elts[1])
        elif isinstance(elt, ast.Tuple):
            return None
        else:
            inner = ast.Expr(value=ast.Call(func=ast.Attribute(value=load, attr="add", ctx=ast.Load()), args=[elt], keywords=[]))
        body = [inner]
        for g in reversed(comp.generators):
            for c in reversed(g.ifs):
                body = [ast.If(test=c, body=body, orelse=[])]
            tgt = copy_tree(g.target)
            for x in ast.walk(tgt):
                if hasattr(x, "ctx"):
                    x.ctx = ast.Store()
            body = [ast.For(target=tgt, iter=g.iter, body=body, orelse=[])]
        out = body[0]
        for x in ast.walk(out):
            if isinstance(x, (ast.stmt, ast.expr)) and not hasattr(x, "lineno"):
                ast.copy_location(x, st)
        ast.copy_location(out, st)
        ast.fix_missing_locations(out)
        changed[0] = True
        return out

    def block(stmts, used):
        for i, st in enumerate(stmts):
            r = rewrite(st, used)
            if r is not None:
                stmts[i] = r
                continue
            for fld in ("body", "orelse", "finalbody"):
                sub = getattr(st, fld, None)
                if isinstance(sub, list) and sub and isinstance(sub[0], ast.stmt) and not isinstance(st, (ast.FunctionDef, ast.AsyncFunctionDef, ast.ClassDef)):
                    block(sub, used)
            for h in getattr(st, "handlers", []) or []:
                block(h.body, used)

    for fn in nodes:
        if isinstance(fn, (ast.FunctionDef, ast.AsyncFunctionDef)):
            if not any(comp_of(x) is not None for x in ast.walk(fn) if isinstance(x, (ast.Expr, ast.AugAssign))):
                continue
            used = set()
            for x in ast.walk(fn):
                if isinstance(x, ast.Name):
                    # names bound by comprehensions do not count as the function's own
                    used.add(x.id)
                elif isinstance(x, ast.arg):
                    used.add(x.arg)
            comp_only = set()
            for x in ast.walk(fn):
                if isinstance(x, (ast.GeneratorExp, ast.ListComp, ast.SetComp, ast.DictComp)):
                    for g in x.generators:
                        for t in ast.walk(g.target):
                            if isinstance(t, ast.Name):
                                comp_only.add(t.id)
            outside = set()
            comp_nodes = {id(y) for x in ast.walk(fn) if isinstance(x, (ast.GeneratorExp, ast.ListComp, ast.SetComp, ast.DictComp)) for y in ast.walk(x)}
            for x in ast.walk(fn):
                if isinstance(x, ast.Name) and id(x) not in comp_nodes:
                    outside.add(x.id)
                elif isinstance(x, ast.arg):
                    outside.add(x.arg)
            block(fn.body, outside)
    return changed[0]


def _instantiate_factories(tree):
    """NAME = make(a…) at module level, where `make` is a module-level function that does nothing but define one inner function and
    return it, is read as `def NAME(<inner parameters>): <inner body, make's parameters replaced by a…>`"""
    from .core import copy_tree
    from .unroll import _Sub, _simple
    factories = {}
    for fn in tree.body:
        if not isinstance(fn, ast.FunctionDef) or fn.decorator_list:
            continue
        body = [s for s in fn.body if not (isinstance(s, ast.Expr) and isinstance(s.value, ast.Constant))]
        a = fn.args
        if len(body) == 2 and isinstance(body[0], ast.FunctionDef) and isinstance(body[1], ast.Return) and isinstance(body[1].value, ast.Name) \
                and body[1].value.id == body[0].name and not body[0].decorator_list and not (a.vararg or a.kwarg or a.kwonlyargs or a.defaults):
            inner = body[0]
            params = [p.arg for p in a.args]
            if any(isinstance(x, (ast.Nonlocal, ast.Global)) for x in ast.walk(inner)):
                continue
            if any(isinstance(x, ast.Name) and x.id in params and not isinstance(x.ctx, ast.Load) for x in ast.walk(inner)):
                continue
            if {p.arg for p in inner.args.args} & set(params):
                continue
            factories[fn.name] = (fn, inner, params)
    if not factories:
        return False
    changed = False
    for i, st in enumerate(tree.body):
        if isinstance(st, ast.Assign) and len(st.targets) == 1 and isinstance(st.targets[0], ast.Name) and isinstance(st.value, ast.Call) \
                and isinstance(st.value.func, ast.Name) and st.value.func.id in factories and not st.value.keywords:
            fn, inner, params = factories[st.value.func.id]
            if len(st.value.args) != len(params) or not all(_simple(x) for x in st.value.args):
                continue
            new = copy_tree(inner)
            new.name = st.targets[0].id
            new.body = [_Sub(dict(zip(params, st.value.args))).visit(b) for b in new.body]
            ast.copy_location(new, st)
            ast.fix_missing_locations(new)
            tree.body[i] = new
            changed = True
    return changed


GLOBAL_HELPERS = {}  # name -> (param index, message index): require-helpers seen in any module loaded so far (a helper defined in
#                        one module and imported into a sibling is recognised in the sibling too)


GLOBAL_CONSTANTS = {}  # name -> literal: private / ALL-CAPS module-level names bound once to a literal (filled by the loader's prescan)


def _module_constants(tree):
    """names bound exactly once, at module level, to a literal that cannot change: a string / number / None, a tuple or frozenset of
    such, a format string.  (`_NAME_KEY = ".NAME"`, `_TRACKED = frozenset({".NAME", "EDIF.identifier"})`)"""
    stores = {}
    for n in ast.walk(tree):
        if isinstance(n, ast.Name) and isinstance(n.ctx, (ast.Store, ast.Del)):
            stores[n.id] = stores.get(n.id, 0) + 1
        elif isinstance(n, (ast.FunctionDef, ast.AsyncFunctionDef, ast.ClassDef)):
            stores[n.name] = stores.get(n.name, 0) + 1
        elif isinstance(n, (ast.Import, ast.ImportFrom)):
            for a in n.names:
                nm = (a.asname or a.name).split(".")[0]
                stores[nm] = stores.get(nm, 0) + 1
        elif isinstance(n, ast.arg):
            stores[n.arg] = stores.get(n.arg, 0) + 1
        elif isinstance(n, ast.Global):
            for nm in n.names:
                stores[nm] = stores.get(nm, 0) + 2

    def literal(v):
        if isinstance(v, ast.Constant) and (v.value is None or isinstance(v.value, (str, int, float, bytes, bool))):
            return True
        if isinstance(v, ast.Tuple):
            return bool(v.elts) and all(literal(x) and not isinstance(x, ast.Tuple) for x in v.elts)
        if isinstance(v, ast.Call) and isinstance(v.func, ast.Name) and v.func.id == "frozenset" and len(v.args) == 1 and not v.keywords \
                and isinstance(v.args[0], (ast.Set, ast.Tuple, ast.List)) and v.args[0].elts and all(isinstance(x, ast.Constant) for x in v.args[0].elts):
            return True
        return False
    from .core import copy_tree
    out = {}
    for _round in range(3):
        grew = False
        for st in tree.body:
            if isinstance(st, ast.Assign) and len(st.targets) == 1 and isinstance(st.targets[0], ast.Name) and stores.get(st.targets[0].id) == 1 \
                    and st.targets[0].id not in out and (st.targets[0].id.startswith("_") or st.targets[0].id.isupper()):
                v = st.value
                if any(isinstance(x, ast.Name) and x.id in out and isinstance(out[x.id], (ast.Constant, ast.Tuple)) for x in ast.walk(v)):
                    # a constant spelled with other constants: _KEYS = (_NAME_KEY, _ID_KEY); _KEY_SET = frozenset(_KEYS)
                    class R(ast.NodeTransformer):
                        def visit_Name(self, n):
                            if isinstance(n.ctx, ast.Load) and n.id in out and isinstance(out[n.id], (ast.Constant, ast.Tuple)):
                                return ast.copy_location(copy_tree(out[n.id]), n)
                            return n
                    v = R().visit(copy_tree(v))
                if literal(v):
                    out[st.targets[0].id] = v
                    grew = True
        if not grew:
            break
    return out


def _propagate_constants(tree, consts):
    """a read of such a name is a read of the literal (a tuple only where it is iterated or tested for membership, a frozenset only where
    it is tested for membership — there it reads as the set literal)"""
    from .core import copy_tree
    changed = [False]

    class P(ast.NodeTransformer):
        def __init__(self):
            self.shadow = [set()]

        def _scope(self, n):
            local = {a.arg for a in n.args.posonlyargs + n.args.args + n.args.kwonlyargs} | {a.arg for a in (n.args.vararg, n.args.kwarg) if a is not None}
            for x in ast.walk(n):
                if isinstance(x, ast.Name) and isinstance(x.ctx, (ast.Store, ast.Del)):
                    local.add(x.id)
            self.shadow.append(self.shadow[-1] | local)
            self.generic_visit(n)
            self.shadow.pop()
            return n

        visit_FunctionDef = _scope
        visit_AsyncFunctionDef = _scope
        visit_Lambda = _scope

        def _sub(self, n, as_member=False, as_iter=False):
            if isinstance(n, ast.Name) and isinstance(n.ctx, ast.Load) and n.id in consts and n.id not in self.shadow[-1]:
                v = consts[n.id]
                if isinstance(v, ast.Constant):
                    changed[0] = True
                    return ast.copy_location(copy_tree(v), n)
                if isinstance(v, ast.Tuple) and (as_member or as_iter):
                    changed[0] = True
                    return ast.copy_location(copy_tree(v), n)
                if isinstance(v, ast.Call) and as_member:
                    changed[0] = True
                    return ast.copy_location(ast.Set(elts=[copy_tree(x) for x in v.args[0].elts]), n)
            return None

        def visit_Name(self, n):
            r = self._sub(n)
            return r if r is not None else n

        def visit_Compare(self, n):
            self.generic_visit(n)
            for i, (op, c) in enumerate(zip(n.ops, n.comparators)):
                if isinstance(op, (ast.In, ast.NotIn)):
                    r = self._sub(c, as_member=True)
                    if r is not None:
                        n.comparators[i] = r
            return n

        def visit_For(self, n):
            r = self._sub(n.iter, as_iter=True)
            if r is not None:
                n.iter = r
            self.generic_visit(n)
            return n

        def visit_comprehension(self, n):
            r = self._sub(n.iter, as_iter=True)
            if r is not None:
                n.iter = r
            self.generic_visit(n)
            return n

        def visit_Assign(self, n):
            # the defining statement itself stays
            if len(n.targets) == 1 and isinstance(n.targets[0], ast.Name) and n.targets[0].id in consts and len(self.shadow) == 1:
                return n
            self.generic_visit(n)
            return n
    # (module-level statements keep the names: tables of constants such as `PORT_DIRECTIONS = {INPUT, OUTPUT, INOUT}` are read by name)
    p_ = P()
    for st in tree.body:
        if isinstance(st, (ast.FunctionDef, ast.AsyncFunctionDef, ast.ClassDef)):
            p_.visit(st)
    if changed[0]:
        ast.fix_missing_locations(tree)
    return changed[0]


def normalise(tree):
    nodes = list(ast.walk(tree))
    consts = _module_constants(tree)
    imported_names = {a.asname or a.name: a.name for n in tree.body if isinstance(n, ast.ImportFrom) for a in n.names}
    for alias, orig in imported_names.items():
        if orig in GLOBAL_CONSTANTS and alias not in consts:
            consts[alias] = GLOBAL_CONSTANTS[orig]
    if consts and _propagate_constants(tree, consts):
        nodes = list(ast.walk(tree))
    if any(x.__class__.__name__ == "Match" for x in nodes) and _desugar_match(tree):
        nodes = list(ast.walk(tree))
    if any(isinstance(x, ast.For) and isinstance(x.iter, ast.Name) for x in nodes) and _inline_single_use_iterators(tree):
        nodes = list(ast.walk(tree))
    helpers = dict(GLOBAL_HELPERS)
    local = _require_helpers(tree, nodes)
    helpers.update(local)
    GLOBAL_HELPERS.update(local)
    imported = {a.asname or a.name for n in nodes if isinstance(n, ast.ImportFrom) for a in n.names}
    local_ctx = _context_helpers(tree) if any(isinstance(x, ast.FunctionDef) and x.decorator_list for x in nodes) else {}
    GLOBAL_CONTEXTS.update(local_ctx)
    contexts = {k: v for k, v in GLOBAL_CONTEXTS.items() if k.startswith("_") and (k in local_ctx or k in imported or any(
        isinstance(x, ast.Attribute) and x.attr == k for x in nodes))}
    helpers = {k: v for k, v in helpers.items() if k in local or k in imported}

    class T(ast.NodeTransformer):
        def _hoist_walrus(self, n):
            """if (x := E) is not None: …   ->   x = E; if x is not None: …     (the walrus is the first thing the test evaluates)"""
            def first(e):
                # the sub-expression evaluated first, with a setter to replace it
                if isinstance(e, ast.NamedExpr):
                    return e, None
                if isinstance(e, ast.Compare):
                    r = first(e.left)
                    if r is not None:
                        return (r[0], r[1]) if r[1] is not None else (r[0], lambda new, e=e: setattr(e, "left", new))
                if isinstance(e, ast.BoolOp):
                    r = first(e.values[0])
                    if r is not None:
                        return (r[0], r[1]) if r[1] is not None else (r[0], lambda new, e=e: e.values.__setitem__(0, new))
                if isinstance(e, ast.UnaryOp):
                    r = first(e.operand)
                    if r is not None:
                        return (r[0], r[1]) if r[1] is not None else (r[0], lambda new, e=e: setattr(e, "operand", new))
                return None
            r = first(n.test)
            if r is None or not isinstance(r[0].target, ast.Name):
                return None
            w, setter = r
            load = ast.copy_location(ast.Name(id=w.target.id, ctx=ast.Load()), w)
            if setter is None:
                n.test = load
            else:
                setter(load)
            return ast.copy_location(ast.Assign(targets=[ast.copy_location(ast.Name(id=w.target.id, ctx=ast.Store()), w)], value=w.value), n)

        def visit_If(self, n):
            self.generic_visit(n)
            if self.depth > 0 and any(isinstance(x, ast.NamedExpr) for x in ast.walk(n.test)):
                pre = self._hoist_walrus(n)
                if pre is not None:
                    r = self.visit_If_core(n)
                    return [pre] + (r if isinstance(r, list) else [r])
            return self.visit_If_core(n)

        def visit_If_core(self, n):
            if not n.orelse and len(n.body) == 1:
                args = _is_assertion_raise(n.body[0])
                if args is not None:
                    a = ast.Assert(test=_negate(n.test), msg=args[0] if args else None)
                    return ast.copy_location(a, n)
            return n

        def visit_Expr(self, n):
            self.generic_visit(n)
            c = n.value
            if isinstance(c, ast.Call) and not c.keywords:
                name = c.func.id if isinstance(c.func, ast.Name) else (c.func.attr if isinstance(c.func, ast.Attribute) and isinstance(c.func.value, ast.Name)
                                                                        and c.func.value.id in ("self", "cls") else None)
                if name in helpers:
                    pi, mi = helpers[name]
                    if pi < len(c.args) and (mi is None or mi < len(c.args)) and not any(isinstance(a, ast.Starred) for a in c.args):
                        msg = c.args[mi] if mi is not None else None
                        if isinstance(msg, ast.Lambda) and not msg.args.args:
                            msg = msg.body  # a lazily built message
                        a = ast.Assert(test=c.args[pi], msg=msg)
                        return ast.copy_location(a, n)
            return n

        depth = 0

        def visit_FunctionDef(self, n):
            self.depth += 1
            self.generic_visit(n)
            self.depth -= 1
            return n

        def visit_Try(self, n):
            self.generic_visit(n)
            return self._eafp(n)

        def _eafp(self, n):
            # try: S[D[k]]  except KeyError: A  else: B      ->      if k in D: S[D[k]]; B  else: A
            # S is one statement whose only way to a KeyError is the lookup D[k] itself (x = D[k], return D[k], D[k].append(v));
            # D and k are names, attribute chains or literals.  Assumes what every mapping promises: D[k] raises KeyError exactly
            # when `k in D` is false.
            if len(n.handlers) == 1 and not n.finalbody and len(n.body) == 1 and isinstance(n.handlers[0].type, ast.Name) and n.handlers[0].type.id == "KeyError" \
                    and not (n.handlers[0].name and any(isinstance(x, ast.Name) and x.id == n.handlers[0].name for s_ in n.handlers[0].body for x in ast.walk(s_))):
                from .unroll import _simple
                st, sub = n.body[0], None
                if isinstance(st, ast.Assign) and len(st.targets) == 1 and isinstance(st.targets[0], ast.Name) and isinstance(st.value, ast.Subscript):
                    sub = st.value
                elif isinstance(st, ast.Return) and isinstance(st.value, ast.Subscript) and not n.orelse:
                    sub = st.value
                elif isinstance(st, ast.Expr) and isinstance(st.value, ast.Call) and isinstance(st.value.func, ast.Attribute) and st.value.func.attr in ("append", "add", "extend", "update") \
                        and isinstance(st.value.func.value, ast.Subscript) and all(isinstance(a_, (ast.Name, ast.Constant)) for a_ in st.value.args) and not st.value.keywords:
                    sub = st.value.func.value
                def plain(e):
                    return isinstance(e, (ast.Name, ast.Constant)) or (isinstance(e, ast.Attribute) and plain(e.value))
                if sub is not None and plain(sub.value) and plain(sub.slice) and isinstance(sub.ctx, ast.Load):
                    from .core import copy_tree
                    test = ast.Compare(left=copy_tree(sub.slice), ops=[ast.In()], comparators=[copy_tree(sub.value)])
                    hb = n.handlers[0].body
                    new = ast.If(test=test, body=[st] + list(n.orelse), orelse=[] if all(isinstance(h, ast.Pass) for h in hb) else list(hb))
                    ast.copy_location(new, n)
                    ast.fix_missing_locations(new)
                    return new
            return n

        def visit_With(self, n):
            self.generic_visit(n)
            # with self._h(a…): BODY   with _h a private generator context manager   ->   PRE; BODY; POST   (try/finally when it has one)
            if len(n.items) == 1 and n.items[0].optional_vars is None and isinstance(n.items[0].context_expr, ast.Call) and contexts:
                c = n.items[0].context_expr
                nm = c.func.attr if isinstance(c.func, ast.Attribute) else (c.func.id if isinstance(c.func, ast.Name) else None)
                if nm in contexts and not c.keywords:
                    from .core import copy_tree
                    from .unroll import _Sub, _simple
                    params, pre, post, fin = contexts[nm]
                    args = list(c.args)
                    if params and params[0] in ("self", "cls") and isinstance(c.func, ast.Attribute):
                        args = [c.func.value] + args
                    # a return/break/continue out of BODY still runs POST (a normal exit of the with block); only the try/finally form
                    # says that in sequence
                    jumps = any(isinstance(x, (ast.Return, ast.Break, ast.Continue)) for s_ in n.body for x in ast.walk(s_))
                    if len(args) == len(params) and all(_simple(a_) for a_ in args) and (fin or not post or not jumps):
                        m = dict(zip(params, args))
                        stored = {x.id for s_ in pre + post for x in ast.walk(s_) if isinstance(x, ast.Name) and not isinstance(x.ctx, ast.Load)}
                        if not (stored & set(params)):
                            T.ctx_count = getattr(T, "ctx_count", 0) + 1
                            ren = {v_: ast.Name(id="%s__c%d" % (v_, T.ctx_count), ctx=ast.Load()) for v_ in stored}

                            class Ren(ast.NodeTransformer):
                                def visit_Name(self, x):
                                    if x.id in ren:
                                        return ast.copy_location(ast.Name(id=ren[x.id].id, ctx=x.ctx), x)
                                    return x

                            def inst(stmts_):
                                out_ = []
                                for s_ in stmts_:
                                    s2 = _Sub(m).visit(Ren().visit(copy_tree(s_)))
                                    for x in ast.walk(s2):
                                        if hasattr(x, "lineno"):
                                            x.lineno = x.end_lineno = n.lineno
                                    out_.append(s2)
                                return out_
                            p1, p2 = inst(pre), inst(post)
                            if fin and p2:
                                core_ = [ast.copy_location(ast.Try(body=n.body, handlers=[], orelse=[], finalbody=p2), n)]
                            else:
                                core_ = list(n.body) + p2
                            out_ = p1 + core_
                            for s_ in out_:
                                ast.fix_missing_locations(s_)
                            return out_
            # with contextlib.suppress(E…): BODY   ->   try: BODY except (E…): pass
            if len(n.items) == 1 and n.items[0].optional_vars is None and isinstance(n.items[0].context_expr, ast.Call):
                c = n.items[0].context_expr
                nm = c.func.attr if isinstance(c.func, ast.Attribute) else (c.func.id if isinstance(c.func, ast.Name) else None)
                if nm == "suppress" and c.args and not c.keywords:
                    typ = c.args[0] if len(c.args) == 1 else ast.Tuple(elts=list(c.args), ctx=ast.Load())
                    h = ast.ExceptHandler(type=typ, name=None, body=[ast.copy_location(ast.Pass(), n)])
                    new = ast.fix_missing_locations(ast.copy_location(ast.Try(body=n.body, handlers=[ast.copy_location(h, n)], orelse=[], finalbody=[]), n))
                    # `with suppress(KeyError): return D[k]` is the look-up-or-fall-through idiom: read like its try form
                    return self._eafp(new)
            return n

        def visit_Return(self, n):
            self.generic_visit(n)
            # return A if c else B   ->   if c: return A else: return B
            if isinstance(n.value, ast.IfExp) and self.depth > 0:
                a = ast.copy_location(ast.Return(value=n.value.body), n)
                b = ast.copy_location(ast.Return(value=n.value.orelse), n)
                return ast.copy_location(ast.If(test=n.value.test, body=[a], orelse=[b]), n)
            return n

        def visit_Assign(self, n):
            self.generic_visit(n)
            # x = A if c else B   ->   if c: x = A else: x = B      (inside functions; module / class level bindings stay one statement)
            if isinstance(n.value, ast.IfExp) and len(n.targets) == 1 and self.depth > 0:
                from .core import copy_tree
                a = ast.copy_location(ast.Assign(targets=[n.targets[0]], value=n.value.body), n)
                b = ast.copy_location(ast.Assign(targets=[copy_tree(n.targets[0])], value=n.value.orelse), n)
                return ast.copy_location(ast.If(test=n.value.test, body=[a], orelse=[b]), n)
            # a, b = x.f, y.g   ->   a = x.f; b = y.g      (plain local names on the left, none of them read on the right, no constants —
            # rows of constants stay rows for the table machinery): the same reads in the same order
            if self.depth > 0 and len(n.targets) == 1 and isinstance(n.targets[0], ast.Tuple) and isinstance(n.value, ast.Tuple) \
                    and len(n.targets[0].elts) == len(n.value.elts) and all(isinstance(t, ast.Name) for t in n.targets[0].elts) \
                    and all(isinstance(v, ast.Attribute) for v in n.value.elts):
                names_ = [t.id for t in n.targets[0].elts]
                if len(set(names_)) == len(names_) and not any(isinstance(x, ast.Name) and x.id in names_ for v in n.value.elts for x in ast.walk(v)):
                    return [ast.copy_location(ast.Assign(targets=[t], value=v), n) for t, v in zip(n.targets[0].elts, n.value.elts)]
            return n

        def visit_For(self, n):
            self.generic_visit(n)
            # for x in (A if c else ()): BODY   ->   if c: for x in A: BODY
            it = n.iter
            # for a, b in product(X, Y): BODY  ->  for a in X: for b in Y: BODY     (X, Y plain reads that BODY does not touch: the
            # snapshot product() takes and the live nested iteration then visit the same pairs in the same order)
            if isinstance(it, ast.Call) and isinstance(it.func, (ast.Name, ast.Attribute)) and (it.func.id if isinstance(it.func, ast.Name) else it.func.attr) == "product" \
                    and not it.keywords and isinstance(n.target, ast.Tuple) and len(n.target.elts) == len(it.args) >= 2 and not n.orelse:
                from .unroll import _simple
                from .core import norm as _norm
                texts = [_norm(a) for a in it.args]
                body_txt = " ".join(_norm(b) for b in n.body)
                if all(_simple(a) and not isinstance(a, ast.Constant) for a in it.args) and not any(t in body_txt for t in texts) \
                        and not any(isinstance(x, (ast.Break,)) for b in n.body for x in ast.walk(b)):
                    inner = n.body
                    for tgt, src in reversed(list(zip(n.target.elts, it.args))):
                        inner = [ast.copy_location(ast.For(target=tgt, iter=src, body=inner, orelse=[]), n)]
                    return inner[0]
            # for a in chain.from_iterable(E for x in IT [if C]): BODY   ->   for x in IT: [if C:] for a in E: BODY   (both sides are lazy)
            if isinstance(it, ast.Call) and isinstance(it.func, ast.Attribute) and it.func.attr == "from_iterable" and len(it.args) == 1 and not it.keywords \
                    and isinstance(it.args[0], ast.GeneratorExp) and not n.orelse and not any(g.is_async for g in it.args[0].generators):
                g = it.args[0]
                bound = {x.id for gen in g.generators for x in ast.walk(gen.target) if isinstance(x, ast.Name)}
                body_names = {x.id for b in n.body for x in ast.walk(b) if isinstance(x, ast.Name)} | {x.id for x in ast.walk(n.target) if isinstance(x, ast.Name)}
                if not (bound & body_names):
                    inner = [ast.copy_location(ast.For(target=n.target, iter=g.elt, body=n.body, orelse=[]), n)]
                    for gen in reversed(g.generators):
                        for c in reversed(gen.ifs):
                            inner = [ast.copy_location(ast.If(test=c, body=inner, orelse=[]), n)]
                        tgt = gen.target
                        for x in ast.walk(tgt):
                            if hasattr(x, "ctx"):
                                x.ctx = ast.Store()
                        inner = [ast.copy_location(ast.For(target=tgt, iter=gen.iter, body=inner, orelse=[]), n)]
                    return ast.fix_missing_locations(inner[0])
            if isinstance(it, ast.IfExp) and not n.orelse:
                empty = lambda e: isinstance(e, (ast.Tuple, ast.List)) and not e.elts
                if empty(it.orelse) and not empty(it.body):
                    n.iter = it.body
                    return ast.copy_location(ast.If(test=it.test, body=[n], orelse=[]), n)
                if empty(it.body) and not empty(it.orelse):
                    n.iter = it.orelse
                    return ast.copy_location(ast.If(test=_negate(it.test), body=[n], orelse=[]), n)
            return n

        def visit_UnaryOp(self, n):
            self.generic_visit(n)
            # not any(E for x in S)  ->  all(not E for x in S)
            if isinstance(n.op, ast.Not) and isinstance(n.operand, ast.Call) and isinstance(n.operand.func, ast.Name) and n.operand.func.id == "any" \
                    and len(n.operand.args) == 1 and not n.operand.keywords and isinstance(n.operand.args[0], (ast.GeneratorExp, ast.ListComp)):
                g = n.operand.args[0]
                g.elt = ast.copy_location(_negate(g.elt), g.elt)
                n.operand.func = ast.copy_location(ast.Name(id="all", ctx=ast.Load()), n.operand.func)
                return n.operand
            return n

        def visit_Call(self, n):
            self.generic_visit(n)
            # filter(f, S) -> (x for x in S if f(x))      map(f, S) -> (f(x) for x in S)        (lazy on both sides)
            if isinstance(n.func, ast.Name) and n.func.id in ("filter", "map") and len(n.args) == 2 and not n.keywords \
                    and isinstance(n.args[0], (ast.Name, ast.Attribute, ast.Lambda)) and not (isinstance(n.args[0], ast.Name) and n.args[0].id == "None"):
                T.counter = getattr(T, "counter", 0) + 1
                v = "each__f%d" % T.counter
                call = ast.Call(func=n.args[0], args=[ast.Name(id=v, ctx=ast.Load())], keywords=[])
                comp = ast.comprehension(target=ast.Name(id=v, ctx=ast.Store()), iter=n.args[1], ifs=[call] if n.func.id == "filter" else [], is_async=0)
                elt = ast.Name(id=v, ctx=ast.Load()) if n.func.id == "filter" else call
                return ast.fix_missing_locations(ast.copy_location(ast.GeneratorExp(elt=elt, generators=[comp]), n))
            # all(map(f, S)) / any(map(f, S))  ->  all(f(_x) for _x in S)
            if isinstance(n.func, ast.Name) and n.func.id in ("all", "any") and len(n.args) == 1 and not n.keywords:
                m = n.args[0]
                if isinstance(m, ast.Call) and isinstance(m.func, ast.Name) and m.func.id == "map" and len(m.args) == 2 and not m.keywords \
                        and isinstance(m.args[0], (ast.Name, ast.Attribute)):
                    var = ast.Name(id="_each", ctx=ast.Load())
                    gen = ast.GeneratorExp(elt=ast.Call(func=m.args[0], args=[var], keywords=[]),
                                           generators=[ast.comprehension(target=ast.Name(id="_each", ctx=ast.Store()), iter=m.args[1], ifs=[], is_async=0)])
                    n.args = [ast.copy_location(gen, m)]
            return n
    need = False
    for x in nodes:
        if isinstance(x, ast.For) and (isinstance(x.iter, ast.IfExp) or (isinstance(x.iter, ast.Call) and ("product" in ast.dump(x.iter.func) or "from_iterable" in ast.dump(x.iter.func)))):
            need = True
            break
        if isinstance(x, (ast.Assign, ast.Return)) and isinstance(x.value, ast.IfExp):
            need = True
            break
        if isinstance(x, ast.Assign) and isinstance(x.value, ast.Tuple) and x.value.elts and all(isinstance(v, ast.Attribute) for v in x.value.elts):
            need = True
            break
        if isinstance(x, ast.Try) and len(x.handlers) == 1 and isinstance(x.handlers[0].type, ast.Name) and x.handlers[0].type.id == "KeyError":
            need = True
            break
        if isinstance(x, ast.NamedExpr) or (isinstance(x, ast.With) and ("suppress" in ast.dump(x.items[0].context_expr) or contexts)):
            need = True
            break
        if isinstance(x, ast.If):
            if not x.orelse and len(x.body) == 1 and isinstance(x.body[0], ast.Raise):
                need = True
                break
        elif isinstance(x, ast.UnaryOp) and isinstance(x.op, ast.Not) and isinstance(x.operand, ast.Call) and isinstance(x.operand.func, ast.Name) and x.operand.func.id == "any":
            need = True
            break
        elif isinstance(x, ast.Call) and isinstance(x.func, ast.Name):
            if x.func.id in ("filter", "map") and len(x.args) == 2:
                need = True
                break
            if x.func.id in helpers or (x.func.id in ("all", "any") and len(x.args) == 1 and isinstance(x.args[0], ast.Call)
                                        and isinstance(x.args[0].func, ast.Name) and x.args[0].func.id == "map"):
                need = True
                break
        elif isinstance(x, ast.Call) and isinstance(x.func, ast.Attribute) and x.func.attr in helpers:
            need = True
            break
    if need:
        tree = T().visit(tree)
        ast.fix_missing_locations(tree)
        nodes = None
    if nodes is None:
        nodes = list(ast.walk(tree))
    local_decos = _guard_decorators(tree) if any(isinstance(x, ast.FunctionDef) and x.decorator_list for x in nodes) else {}
    GLOBAL_DECORATORS.update(local_decos)
    if (local_decos or GLOBAL_DECORATORS) and any(isinstance(x, ast.FunctionDef) and x.decorator_list for x in nodes):
        usable = {k: v for k, v in GLOBAL_DECORATORS.items() if k in local_decos or k in imported}
        if usable and _apply_guard_decorators(tree, usable):
            nodes = list(ast.walk(tree))
    if _instantiate_factories(tree):
        nodes = None
    if _desugar_bulk(tree, nodes if nodes is not None else list(ast.walk(tree))):
        nodes = None
    from .unroll import unroll
    tree, _n = unroll(tree, nodes)
    return tree
