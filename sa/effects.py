"""Effect events of IR functions: CHECK / NOTIFY / WRITE / CALL, in evaluation order per
CFG node, with callees resolved through the kind inference; and whole-program effect
summaries (fixpoint over the call graph) so rules are stable under helper extraction.
"""
import ast

from .core import AnalysisError, norm, walk_local
from .cfg import cfg_of, node_exprs
from .kinds import (TOP, CONCRETE, FIELD_OWNER, FIELD_TYPES, SCALAR_FIELDS, field_class, kinds_of,
                    typer_for, expand)

MUTATING_METHODS = {
    "append": "append", "insert": "insert", "extend": "extend", "remove": "remove", "pop": "pop",
    "clear": "clear", "add": "add", "discard": "discard", "update": "update", "sort": "sort",
    "reverse": "reverse", "popitem": "popitem", "setdefault": "setdefault", "__setitem__": "setitem",
    "__delitem__": "delitem", "move_to_end": "reorder", "difference_update": "update",
    "intersection_update": "update", "symmetric_difference_update": "update",
}


class Ev:
    """kind: check | notify | write | call
    check : how in {assert, raise}; cond = test expr (assert) / None
    notify: event kind name; args = call args
    write : cls, field, op, recv (expr), value (expr|None), elem (expr|None: element added/removed)
    call  : targets = [FuncInfo]; recv (expr|None); args; ctor (class name if constructor)
    """
    __slots__ = ("kind", "node", "stmt", "how", "cond", "event", "args", "cls", "field", "op", "recv",
                 "value", "elem", "targets", "ctor", "bound", "unresolved")

    def __init__(self, kind, node, stmt, **kw):
        self.kind = kind
        self.node = node
        self.stmt = stmt
        for s in self.__slots__[3:]:
            setattr(self, s, kw.get(s))

    def __repr__(self):
        if self.kind == "write":
            return "WRITE(%s.%s %s via %s)" % (self.cls, self.field, self.op, norm(self.recv))
        if self.kind == "notify":
            return "NOTIFY(%s)" % self.event
        if self.kind == "check":
            return "CHECK(%s)" % self.how
        return "CALL(%s)" % ",".join(t.qualname for t in self.targets or [])


def root_and_depth(e):
    """root Name of an access path and the number of attribute/subscript hops"""
    d = 0
    while True:
        if isinstance(e, ast.Attribute):
            d += 1
            e = e.value
        elif isinstance(e, ast.Subscript):
            d += 1
            e = e.value
        elif isinstance(e, ast.Call) and isinstance(e.func, ast.Attribute):
            d += 1
            e = e.func.value
        else:
            break
    if isinstance(e, ast.Name):
        return e.id, d
    return None, d


def _private(name):
    return name.startswith("_") and not (name.startswith("__") and name.endswith("__"))


class FuncEvents:
    """events of one function, per CFG node"""

    def __init__(self, P, func, model):
        self.P = P
        self.func = func
        self.model = model
        self.ty = typer_for(P, func, param_types=model._ptypes.get(func.key) if model is not None else None)
        self.cfg = self.ty.cfg
        self.by_node = {}
        self.aliases = {}  # var -> (recv expr, cls, field) for `v = X._f`
        self.fresh = {}  # var -> class name (constructed in this activation)
        self.unresolved = []
        self.pwrites = []  # (param index, op, element param index or None): a private helper mutating a container it was handed
        self._prescan()
        for n in self.cfg.nodes:
            self.by_node[n.id] = self._events(n)

    def _prescan(self):
        for n in walk_local(self.func.node):
            if isinstance(n, ast.Assign) and len(n.targets) == 1 and isinstance(n.targets[0], ast.Name):
                v = n.value
                if isinstance(v, ast.Attribute) and v.attr.startswith("_") and v.attr in FIELD_OWNER:
                    self.aliases[n.targets[0].id] = v
                if isinstance(v, ast.Call):
                    c = self.ty.class_of_expr(v.func)
                    if c in CONCRETE:
                        self.fresh[n.targets[0].id] = c
                    elif isinstance(v.func, ast.Attribute) and v.func.attr == "_clone":
                        self.fresh[n.targets[0].id] = "clone"

    # -- classification helpers -----------------------------------------------------
    def _field_ref(self, e, env):
        """if e denotes a private IR field X._f (directly or through a local alias) return
        (recv_expr, cls or None, field)"""
        if isinstance(e, ast.Name) and e.id in self.aliases:
            e = self.aliases[e.id]
        if isinstance(e, ast.Attribute) and e.attr.startswith("_") and e.attr in FIELD_OWNER:
            ks = kinds_of(self.ty.type_of(e.value, env))
            cls = None
            if ks:
                cls = field_class(self.P, ks, e.attr)
            if cls is None and len(FIELD_OWNER[e.attr]) == 1:
                cls = FIELD_OWNER[e.attr][0]
            return e.value, cls, e.attr
        return None

    def _notify_kind(self, call):
        f = call.func
        name = None
        if isinstance(f, ast.Attribute) and f.attr.startswith("_call_"):
            name = f.attr[len("_call_"):]
        elif isinstance(f, ast.Name) and f.id.startswith("_call_"):
            name = f.id[len("_call_"):]
        if name is not None and name in self.model.event_kinds:
            return name
        return None

    def _resolve_method(self, recv, mname, env):
        """FuncInfo targets of recv.mname(...) among IR classes"""
        if isinstance(recv, ast.Call) and norm(recv.func) == "super":
            if self.func.cls is not None:
                mro = self.P.ir_mro(self.func.cls.name)[1:]
                for c in mro:
                    if mname in c.methods:
                        return [c.methods[mname]]
            return []
        ks = kinds_of(self.ty.type_of(recv, env))
        if ks:
            out = []
            for k in sorted(ks):
                m = self.P.ir_lookup_method(k, mname)
                if m is not None and m not in out:
                    out.append(m)
            return out
        cands = []
        for cname, ci in self.P.ir_classes.items():
            if mname in ci.methods:
                cands.append(ci.methods[mname])
        if len(cands) == 1:
            return cands
        return None if cands else []

    def _resolve_setter(self, recv, pname, env, role="setter"):
        ks = kinds_of(self.ty.type_of(recv, env))
        if ks:
            out = []
            for k in sorted(ks):
                m = self.P.ir_lookup_prop(k, pname, role)
                if m is not None and m not in out:
                    out.append(m)
            return out
        cands = []
        for cname, ci in self.P.ir_classes.items():
            if pname in ci.props and role in ci.props[pname]:
                cands.append(ci.props[pname][role])
        return cands

    # -- event extraction ---------------------------------------------------------------
    def _events(self, n):
        env = self.ty.env_at(n)
        evs = []
        stmt = n.ast
        if n.kind == "raisestmt":
            for e in node_exprs(n)[0]:
                self._expr(e, env, evs, stmt)
            evs.append(Ev("check", stmt, stmt, how="raise"))
            return evs
        exprs, targets = node_exprs(n)
        for e in exprs:
            self._expr(e, env, evs, stmt)
        if n.kind == "assert":
            evs.append(Ev("check", stmt, stmt, how="assert", cond=stmt.test))
            return evs
        is_del = isinstance(stmt, ast.Delete)
        value = getattr(stmt, "value", None) if isinstance(stmt, (ast.Assign, ast.AugAssign, ast.AnnAssign)) else None
        for t in targets:
            self._target(t, env, evs, stmt, value, is_del, isinstance(stmt, ast.AugAssign))
        return evs

    def _target(self, t, env, evs, stmt, value, is_del, is_aug):
        if isinstance(t, (ast.Tuple, ast.List)):
            for x in t.elts:
                self._target(x, env, evs, stmt, None, is_del, is_aug)
            return
        if isinstance(t, ast.Attribute):
            if t.attr.startswith("_") and t.attr in FIELD_OWNER:
                ks = kinds_of(self.ty.type_of(t.value, env))
                cls = field_class(self.P, ks, t.attr) if ks else None
                if cls is None and len(FIELD_OWNER[t.attr]) == 1:
                    cls = FIELD_OWNER[t.attr][0]
                evs.append(Ev("write", t, stmt, cls=cls, field=t.attr, recv=t.value, value=value,
                              op="del" if is_del else ("aug" if is_aug else "set")))
                return
            if not t.attr.startswith("_"):
                role = "deleter" if is_del else "setter"
                tg = self._resolve_setter(t.value, t.attr, env, role)
                if tg:
                    evs.append(Ev("call", t, stmt, targets=tg, recv=t.value, args=[value] if value is not None else [], bound=True))
            return
        if isinstance(t, ast.Subscript):
            fr = self._field_ref(t.value, env)
            if fr is not None:
                recv, cls, field = fr
                evs.append(Ev("write", t, stmt, cls=cls, field=field, recv=recv, value=value, elem=t.slice,
                              op="delitem" if is_del else "setitem"))
                return
            ks = kinds_of(self.ty.type_of(t.value, env))
            if ks and all(self.P.ir_lookup_method(k, "__setitem__") is not None for k in ks):
                mname = "__delitem__" if is_del else "__setitem__"
                tg = []
                for k in sorted(ks):
                    m = self.P.ir_lookup_method(k, mname)
                    if m is not None and m not in tg:
                        tg.append(m)
                evs.append(Ev("call", t, stmt, targets=tg, recv=t.value, args=[t.slice] + ([value] if value is not None else []), bound=True))

    def _expr(self, e, env, evs, stmt):
        if isinstance(e, ast.Lambda):
            return
        if isinstance(e, (ast.ListComp, ast.SetComp, ast.GeneratorExp, ast.DictComp)):
            env2 = env.copy()
            for g in e.generators:
                self._expr(g.iter, env2, evs, stmt)
                from .kinds import elem as _elem
                self.ty._bind(g.target, _elem(self.ty.type_of(g.iter, env2)), env2, None)
                for c in g.ifs:
                    self._expr(c, env2, evs, stmt)
            if isinstance(e, ast.DictComp):
                self._expr(e.key, env2, evs, stmt)
                self._expr(e.value, env2, evs, stmt)
            else:
                self._expr(e.elt, env2, evs, stmt)
            return
        if isinstance(e, ast.Call):
            self._expr(e.func, env, evs, stmt)
            for a in e.args:
                self._expr(a, env, evs, stmt)
            for kw in e.keywords:
                self._expr(kw.value, env, evs, stmt)
            self._call(e, env, evs, stmt)
            return
        for c in ast.iter_child_nodes(e):
            if isinstance(c, ast.expr):
                self._expr(c, env, evs, stmt)

    def _param_writes(self, cev, env, evs, stmt):
        """a private helper that mutates a container handed to it (`_insert_at(self._ports, port, i)`): the write belongs to the
        field the caller passed"""
        if self.model is None:
            return
        for t in cev.targets or []:
            if not _private(t.name) or t.key == self.func.key or t.key in self.model._building:
                continue
            tfe = self.model.events(t)
            if not tfe.pwrites:
                continue
            amap = self.model.argmap(cev, t)
            for pi, op, eli in tfe.pwrites:
                arg = amap.get(pi)
                fr = self._field_ref(arg, env) if arg is not None else None
                if fr is None:
                    continue
                recv, cls, field = fr
                evs.append(Ev("write", cev.node, stmt, cls=cls, field=field, recv=recv, op=op, elem=amap.get(eli) if eli is not None else None, value=None))

    def _call(self, call, env, evs, stmt):
        k = self._notify_kind(call)
        if k is not None:
            evs.append(Ev("notify", call, stmt, event=k, args=list(call.args)))
            return
        f = call.func
        c = self.ty.class_of_expr(f)
        if c in CONCRETE or c in ("Pin", "Bundle", "FirstClassElement", "Element"):
            init = self.P.ir_lookup_method(c, "__init__")
            evs.append(Ev("call", call, stmt, targets=[init] if init else [], recv=None, args=list(call.args), ctor=c))
            return
        if isinstance(f, ast.Attribute):
            m = f.attr
            if m in MUTATING_METHODS:
                fr = self._field_ref(f.value, env)
                if fr is None and isinstance(f.value, ast.Name) and f.value.id in self.func.params and _private(self.func.name) \
                        and self.func.role in ("function", "static", "method"):
                    el = (call.args[-1] if m == "insert" else call.args[0]) if call.args else None
                    eli = self.func.params.index(el.id) if isinstance(el, ast.Name) and el.id in self.func.params else None
                    self.pwrites.append((self.func.params.index(f.value.id), MUTATING_METHODS[m], eli))
                    return
                if fr is not None:
                    recv, cls, field = fr
                    el = None
                    if call.args:
                        el = call.args[-1] if m == "insert" else call.args[0]
                    evs.append(Ev("write", call, stmt, cls=cls, field=field, recv=recv, op=MUTATING_METHODS[m], elem=el,
                                  value=None))
                    return
            if m.startswith("__") and m not in ("__init__", "__setitem__", "__delitem__"):
                return
            tg = self._resolve_method(f.value, m, env)
            if tg:
                recv = f.value
                if isinstance(recv, ast.Call) and norm(recv.func) == "super":
                    recv = ast.Name(id="self", ctx=ast.Load())
                evs.append(Ev("call", call, stmt, targets=tg, recv=recv, args=list(call.args), bound=True))
                self._param_writes(evs[-1], env, evs, stmt)
            elif tg is None:
                self.unresolved.append(call)
            return
        if isinstance(f, ast.Name):
            fn = f.id
            if fn in ("setattr", "delattr") and len(call.args) >= 2 and isinstance(call.args[1], ast.Constant) \
                    and isinstance(call.args[1].value, str) and call.args[1].value in FIELD_OWNER:
                fld = call.args[1].value
                ks = kinds_of(self.ty.type_of(call.args[0], env))
                cls = field_class(self.P, ks, fld) if ks else (FIELD_OWNER[fld][0] if len(FIELD_OWNER[fld]) == 1 else None)
                evs.append(Ev("write", call, stmt, cls=cls, field=fld, recv=call.args[0], op="set" if fn == "setattr" else "del",
                              value=call.args[2] if len(call.args) > 2 else None))
                return
            mod = self.func.module
            if fn in mod.functions:
                evs.append(Ev("call", call, stmt, targets=[mod.functions[fn]], recv=None, args=list(call.args)))
                self._param_writes(evs[-1], env, evs, stmt)


class Model:
    """event kinds (from global_callback) + refusable kinds (from the namespace manager)"""

    def __init__(self, P):
        self.P = P
        gc = P.module("spydrnet/global_state/global_callback.py")
        self.event_kinds = sorted(k[len("_container_"):] for k in gc.assigns if k.startswith("_container_"))
        if len(self.event_kinds) < 20:
            raise AnalysisError("anchor vanished: _container_<kind> lists in global_callback.py (%d found)" % len(self.event_kinds))
        self.refusable = self._refusable()
        self._events = {}
        self._summaries = None
        self._building = set()
        self._ptypes = {}  # private IR helper key -> {param name: abstract type}, inferred from its call sites
        self._ptypes_done = False

    def _refusable(self):
        """kinds whose NamespaceManager handler can reach a `raise` inside the plugin package
        (call graph over self.method / namespace.method / policy.method names)."""
        pkg = [m for rel, m in self.P.modules.items() if rel.startswith("spydrnet/plugins/namespace_manager/")]
        if not pkg:
            raise AnalysisError("anchor vanished: spydrnet/plugins/namespace_manager/")
        funcs = {}  # (class name, func name) -> FuncInfo
        for m in pkg:
            for f in m.all_funcs():
                funcs[(f.cls.name if f.cls else "", f.name)] = f
        raises = {}
        calls = {}

        def targets(cname, recv, mname):
            if recv == "self" or recv == "cls" or recv == "super()":
                return [k for k in funcs if k[1] == mname and (k[0] == cname or cname == "" or k[0] != "NamespaceManager" or cname == "NamespaceManager")
                        and (k[0] == cname or (cname != "NamespaceManager" and k[0] != "NamespaceManager"))]
            return [k for k in funcs if k[1] == mname and k[0] != "NamespaceManager"]

        for key, f in funcs.items():
            r = False
            cs = set()
            for n in walk_local(f.node):
                if isinstance(n, ast.Raise):
                    r = True
                elif isinstance(n, ast.Call) and isinstance(n.func, ast.Attribute):
                    cs.update(targets(key[0], norm(n.func.value), n.func.attr))
                elif isinstance(n, ast.Subscript) and isinstance(n.ctx, (ast.Store, ast.Del)) \
                        and isinstance(n.slice, ast.Constant) and isinstance(n.slice.value, str):
                    # element["<data key>"] = v / del element["<data key>"] re-enters the dictionary handlers
                    cs.add(("NamespaceManager", "dictionary_set" if isinstance(n.ctx, ast.Store) else "dictionary_delete"))
            raises[key] = r
            calls[key] = cs
        changed = True
        while changed:
            changed = False
            for key in funcs:
                if not raises[key] and any(raises.get(c, False) for c in calls[key]):
                    raises[key] = True
                    changed = True
        raises = {k[1]: v for k, v in raises.items() if k[0] == "NamespaceManager"}
        nm = self.P.cls("spydrnet/plugins/namespace_manager/__init__.py", "NamespaceManager")
        out = set()
        for k in self.event_kinds:
            if k in nm.methods and raises.get(k, False):
                out.add(k)
        # reviewed exclusion (DESIGN §1.2): create_* — a brand-new element has no name, no parent and no
        # children; the `.NS` branch can only raise if the process-wide policy string is invalid.
        out = {k for k in out if not k.startswith("create_")}
        return out

    def _infer_param_types(self):
        """private helpers (one leading underscore) are only called from inside the package: the kinds of their parameters are the
        join of the kinds of the arguments at their call sites (two rounds: helpers that call helpers)"""
        self._ptypes_done = True
        from .kinds import join, TOP, Env
        for rnd in range(2):
            new = {}
            for f in self.ir_funcs():
                fe = self.events(f)
                for nid, evs in fe.by_node.items():
                    for ev in evs:
                        if ev.kind != "call" or ev.ctor:
                            continue
                        for t in ev.targets or []:
                            nm = t.name
                            if not (nm.startswith("_") and not (nm.startswith("__") and nm.endswith("__"))) or t.role not in ("method", "static", "function"):
                                continue
                            amap = self.argmap(ev, t)
                            env = fe.ty.state.get(nid, Env())
                            for idx, arg in amap.items():
                                if idx >= len(t.params) or arg is None or (idx == 0 and t.role == "method"):
                                    continue
                                ty = fe.ty.type_of(arg, env)
                                if ty is None or ty == TOP:
                                    continue
                                d = new.setdefault(t.key, {})
                                d[t.params[idx]] = join(d[t.params[idx]], ty) if t.params[idx] in d else ty
            if new == self._ptypes:
                break
            changed = {k for k in set(new) | set(self._ptypes) if new.get(k) != self._ptypes.get(k)}
            self._ptypes = new
            for k in changed:
                self._events.pop(k, None)

    def events(self, func):
        if not self._ptypes_done:
            self._infer_param_types()
        fe = self._events.get(func.key)
        if fe is None or fe.func is not func:
            self._building.add(func.key)
            try:
                fe = FuncEvents(self.P, func, self)
            finally:
                self._building.discard(func.key)
            self._events[func.key] = fe
        return fe

    def ir_funcs(self):
        out = []
        for rel, m in sorted(self.P.modules.items()):
            if rel.startswith("spydrnet/ir/") and "/views/" not in rel:
                out.extend(m.all_funcs())
        return out

    @staticmethod
    def rootspec(fe, params, root, depth, is_init=False):
        if root is None:
            return "shared"
        if root in fe.fresh and depth == 0:
            return "fresh"
        if root in params and depth == 0:
            if is_init and params.index(root) == 0:
                return "fresh"
            return ("param", params.index(root))
        return "shared"

    @staticmethod
    def argmap(ev, target):
        """callee parameter index -> caller expression"""
        amap = {}
        off = 0
        if ev.ctor:
            off = 1  # self is the fresh object
        elif ev.bound and getattr(target, "role", None) != "static":
            amap[0] = ev.recv
            off = 1
        for i, a in enumerate(ev.args or []):
            if a is not None:
                amap[i + off] = a
        return amap

    def map_spec(self, fe, params, spec, amap, ev, is_init=False):
        if spec in ("fresh", "shared"):
            return spec
        idx = spec[1]
        if ev.ctor and idx == 0:
            return "fresh"
        e = amap.get(idx)
        if e is None:
            return "shared"
        root, depth = root_and_depth(e)
        return self.rootspec(fe, params, root, depth, is_init)

    @staticmethod
    def none_params(ev, target, known_none=frozenset()):
        """parameters of the callee that are None in this call (omitted with default None,
        or passed the literal None, or passed a parameter of the caller that is itself None in the
        specialisation being analysed — `known_none`) — used to prune `if p is not None:` in the callee"""
        a = target.node.args
        names = [x.arg for x in a.posonlyargs + a.args]
        defaults = [None] * (len(names) - len(a.defaults)) + list(a.defaults)
        off = 1 if (ev.ctor or ev.bound) else 0
        supplied = {}
        for i, x in enumerate(ev.args or []):
            if i + off < len(names):
                supplied[names[i + off]] = x
        call = ev.node if isinstance(ev.node, ast.Call) else None
        if call is not None:
            for kw in call.keywords:
                if kw.arg is None:
                    return frozenset()
                supplied[kw.arg] = kw.value
            if any(isinstance(x, ast.Starred) for x in call.args):
                return frozenset()
        out = set()
        for n, d in zip(names[off:], defaults[off:]):
            if n in supplied:
                v = supplied[n]
                if isinstance(v, ast.Constant) and v.value is None:
                    out.add(n)
                elif isinstance(v, ast.Name) and v.id in known_none:
                    out.add(n)
            elif isinstance(d, ast.Constant) and d.value is None:
                out.add(n)
        return frozenset(out)

