#!/venv/bin/python
"""Regenerate the per-seed table of DESIGN.md §9 (between the seed-table markers) from seeded/RESULTS.json, and print the
catalogue counts for §8.  Development helper."""
import json
import os
import sys
import textwrap

ROOT = os.path.dirname(os.path.dirname(os.path.abspath(__file__)))
sys.path.insert(0, ROOT)


def main():
    r = json.load(open(os.path.join(ROOT, "seeded", "RESULTS.json")))
    out = []
    for k in sorted(r):
        v = r[k]
        own = k.split("-")[0]
        if v["status"] != "caught":
            out.append("%s **missed**" % k)
            continue
        parts = [p + ":" + "/".join(v["caught_by"][p]) for p in sorted(v["caught_by"], key=lambda p: (p != own, p))]
        out.append("%s %s" % (k, ", ".join(parts)))
    para = "\n".join(textwrap.wrap(" · ".join(out), 110))
    waves = {}
    for k, v in r.items():
        tag = k.split("-")[1][:2] if k.split("-")[1][0] == "w" else "w1"
        w = waves.setdefault(tag, [0, 0, 0])
        w[0] += 1
        w[1] += v["status"] == "caught"
        w[2] += bool(v["own_property_check_caught"])
    summ = "; ".join("%s: %d seeds, %d caught, %d by own property" % (t, *waves[t]) for t in sorted(waves))
    p = os.path.join(ROOT, "DESIGN.md")
    s = open(p).read()
    b, e = "<!-- seed-table:begin -->", "<!-- seed-table:end -->"
    i, j = s.index(b), s.index(e)
    s = s[:i + len(b)] + "\n\nCurrent state (all waves, today's rules): %d seeds, %d caught, %d by the seed's own property's check (%s).\n\n" % (
        len(r), sum(v["status"] == "caught" for v in r.values()), sum(bool(v["own_property_check_caught"]) for v in r.values()), summ) + para + "\n\n" + s[j:]
    open(p, "w").write(s)
    from sa import mutants
    from sa.rules import load_all
    import importlib
    import pkgutil
    import sa.rules
    load_all()
    for m in pkgutil.iter_modules(sa.rules.__path__):
        if m.name.startswith("catalogue_"):
            importlib.import_module("sa.rules." + m.name)
    tot = [0, 0]
    parts = []
    for pid in sorted(mutants.CATALOGUE):
        ms = mutants.CATALOGUE[pid]
        nm = sum(1 for x in ms if x.expect)
        parts.append("%s %d+%d" % (pid, nm, len(ms) - nm))
        tot[0] += nm
        tot[1] += len(ms) - nm
    print("catalogue: %d entries = %d mutants + %d twins: %s" % (sum(tot), tot[0], tot[1], ", ".join(parts)))


if __name__ == "__main__":
    main()
