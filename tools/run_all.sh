#!/bin/bash
# run every claimed quick check on /repo's working tree; print one line each
cd /verif
for id in $(/venv/bin/python -c "import json;print(' '.join(c['property_id'] for c in json.load(open('/verif/MANIFEST.json'))['checks']))"); do
  out=$(/venv/bin/python sa/check.py $id --tier ${1:-quick} 2>&1); rc=$?
  echo "$id rc=$rc $(echo "$out" | head -1 | cut -c1-120)"
  if [ $rc -ne 0 ]; then echo "$out" | grep -E "^(REPORT|ANALYSIS-ERROR)" | cut -c1-300 | head -5; fi
done
