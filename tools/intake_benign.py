#!/venv/bin/python
"""Confirm behaviour-preserving refactorings written by sub-agents (baseline passes, the agent's transcript script prints the
same bytes before and after) on a scratch worktree and file them under /verif/benign/<ID>-<X>/.
usage: intake_benign.py <seed dir> <ID> [letters]     (development helper)"""
import json
import os
import shutil
import subprocess
import sys

SCRATCH = os.environ.get("INTAKE_WT", "/tmp/intake_wt_benign")


def sh(cmd, cwd=None, timeout=1200):
    p = subprocess.run(cmd, shell=True, cwd=cwd, capture_output=True, text=True, timeout=timeout)
    return p.returncode, (p.stdout + p.stderr)


def main():
    seed_dir, pid = sys.argv[1], sys.argv[2]
    letters = sys.argv[3] if len(sys.argv) > 3 else "ABCD"
    tag = os.environ.get("BENIGN_TAG", "")
    for X in letters:
        patch = os.path.join(seed_dir, "%s.diff" % X)
        script = os.path.join(seed_dir, "equiv_%s.py" % X)
        metaf = os.path.join(seed_dir, "meta_%s.json" % X)
        if not (os.path.exists(patch) and os.path.exists(script)):
            print(pid, X, "absent")
            continue
        if os.path.exists(SCRATCH):
            sh("git -C /repo worktree remove --force %s" % SCRATCH)
        rc, out = sh("git -C /repo worktree add --detach %s HEAD" % SCRATCH)
        assert rc == 0, out
        try:
            rc, out = sh("git apply --check %s" % patch, cwd=SCRATCH)
            if rc != 0:
                print(pid, X, "DOES-NOT-APPLY", out.strip()[:150])
                continue
            os.makedirs(os.path.join(SCRATCH, "seed_out"), exist_ok=True)
            local = os.path.join(SCRATCH, "seed_out", os.path.basename(script))
            shutil.copy(script, local)
            run = "cd %s && PYTHONHASHSEED=0 PYTHONPATH=%s /venv/bin/python %s" % (SCRATCH, SCRATCH, local)
            rc0, o0 = sh(run)
            sh("git apply %s" % patch, cwd=SCRATCH)
            rc1, o1 = sh(run)
            rcb, ob = sh("/venv/bin/python /verif/tools/baseline.py %s" % SCRATCH)
            same = (rc0 == rc1 and o0 == o1)
            ok = same and rcb == 0
            print(pid, X, "transcript-identical", same, "baseline", rcb, "=>", "CONFIRMED" if ok else "REJECTED")
            if not ok:
                continue
            dst = os.path.join("/verif/benign", "%s-%s%s" % (pid, tag, X))
            os.makedirs(dst, exist_ok=True)
            shutil.copy(patch, os.path.join(dst, "patch.diff"))
            shutil.copy(script, os.path.join(dst, "equiv.py"))
            meta = json.load(open(metaf)) if os.path.exists(metaf) else {}
            rc, head = sh("git -C /repo rev-parse --short HEAD")
            meta.update({"property": pid, "authored_by": "independent sub-agent asked for a behaviour-preserving refactoring of the property's anchor code",
                         "confirmed_at_repo_head": head.strip(), "what_i_ran": ["transcript script before/after: identical output (%d bytes)" % len(o0), "baseline suite with the change: exit %d" % rcb]})
            json.dump(meta, open(os.path.join(dst, "meta.json"), "w"), indent=1)
        finally:
            sh("git -C /repo worktree remove --force %s" % SCRATCH)


if __name__ == "__main__":
    main()
