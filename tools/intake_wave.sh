#!/bin/bash
# usage: intake_wave.sh <wave dir> <wave tag> <slot> <ID>...   (development helper)
W=$1; T=$2; S=$3; shift 3
for ID in "$@"; do for X in A B C; do
  [ -f $W/$ID/seed_out/$X.diff ] || { echo "$ID-$X absent"; continue; }
  INTAKE_WT=/tmp/intake_wt_$S /venv/bin/python /verif/tools/intake_seeds.py $W/$ID/seed_out $ID-$X --as $ID-$T$X
done; done
