#!/venv/bin/python
"""Confirm seeded defects (from sub-agents) in a scratch worktree of /repo HEAD and file the confirmed ones
under /verif/seeded/<id>/.  usage: intake_seeds.py <seed dir> <name> [--patch <ported patch>]
<seed dir> holds X.diff / demo_X.py / meta_X.json;  <name> e.g. C01-A"""
import json
import os
import shutil
import subprocess
import sys

SCRATCH = os.environ.get("INTAKE_WT", "/tmp/intake_wt")


def sh(cmd, cwd=None, timeout=900):
    p = subprocess.run(cmd, shell=True, cwd=cwd, capture_output=True, text=True, timeout=timeout)
    return p.returncode, (p.stdout + p.stderr)


def main():
    seed_dir, name = sys.argv[1], sys.argv[2]
    prop, letter = name.split("-")
    patch = os.path.join(seed_dir, "%s.diff" % letter)
    dest_name = name
    if "--as" in sys.argv:
        dest_name = sys.argv[sys.argv.index("--as") + 1]
    ported = None
    if "--patch" in sys.argv:
        ported = sys.argv[sys.argv.index("--patch") + 1]
    demo = os.path.join(seed_dir, "demo_%s.py" % letter)
    meta = json.load(open(os.path.join(seed_dir, "meta_%s.json" % letter)))
    if os.path.exists(SCRATCH):
        sh("git -C /repo worktree remove --force %s" % SCRATCH)
    rc, out = sh("git -C /repo worktree add --detach %s HEAD" % SCRATCH)
    assert rc == 0, out
    ran = []
    try:
        use = ported or patch
        rc, out = sh("git apply --check %s" % use, cwd=SCRATCH)
        if rc != 0:
            print("DOES-NOT-APPLY", name, out.strip()[:200])
            return 3
        os.makedirs(os.path.join(SCRATCH, "seed_out"), exist_ok=True)
        local_demo = os.path.join(SCRATCH, "seed_out", os.path.basename(demo))
        shutil.copy(demo, local_demo)  # some demos locate the tree relative to their own path
        env = "cd %s && PYTHONPATH=%s /venv/bin/python %s" % (SCRATCH, SCRATCH, local_demo)
        rc0, o0 = sh(env)
        ran.append({"cmd": "demo on HEAD without the change", "exit": rc0})
        sh("git apply %s" % use, cwd=SCRATCH)
        rc1, o1 = sh(env)
        ran.append({"cmd": "demo with the change", "exit": rc1, "tail": o1.strip()[-300:]})
        rcb, ob = sh("/venv/bin/python /verif/tools/baseline.py %s" % SCRATCH)
        ran.append({"cmd": "baseline suite with the change", "exit": rcb, "tail": ob.strip()[-200:]})
        ok = rc0 == 0 and rc1 != 0 and rcb == 0
        print(name, "demo-before", rc0, "demo-after", rc1, "baseline", rcb, "=> %s" % ("CONFIRMED" if ok else "REJECTED"))
        if not ok:
            print(o0[-300:] if rc0 else "", ob[-300:] if rcb else "")
            return 1
        dst = os.path.join("/verif/seeded", dest_name)
        os.makedirs(dst, exist_ok=True)
        shutil.copy(use, os.path.join(dst, "patch.diff"))
        if ported:
            shutil.copy(patch, os.path.join(dst, "patch_as_authored_against_pristine.diff"))
        shutil.copy(demo, os.path.join(dst, "demo.py"))
        rc, head = sh("git -C /repo rev-parse --short HEAD")
        meta_out = {
            "property": prop,
            "summary": meta.get("summary"),
            "needs_to_manifest": meta.get("needs_to_manifest"),
            "files": meta.get("files"),
            "authored_by": "independent sub-agent given only the property text and a scratch worktree",
            "ported_to_head": bool(ported),
            "confirmed_at_repo_head": head.strip(),
            "what_i_ran": ran,
        }
        json.dump(meta_out, open(os.path.join(dst, "meta.json"), "w"), indent=1)
        return 0
    finally:
        sh("git -C /repo worktree remove --force %s" % SCRATCH)


if __name__ == "__main__":
    sys.exit(main())
