#!/venv/bin/python
"""Apply each confirmed behaviour-preserving refactoring to /repo, run every claimed quick check, undo.  A VIOLATION here is a false
alarm of the rules; an ANALYSIS-ERROR is an 'undecided' (shape outside the rule's templates).  Writes /verif/benign/RESULTS.json."""
import json
import os
import re
import subprocess
import sys
from concurrent.futures import ThreadPoolExecutor

ROOT = "/verif/benign"


def sh(cmd, cwd=None):
    p = subprocess.run(cmd, shell=True, cwd=cwd, capture_output=True, text=True)
    return p.returncode, p.stdout + p.stderr


def run_check(prop):
    rc, out = sh("/venv/bin/python /verif/sa/check.py %s --tier quick" % prop)
    reps = re.findall(r"^REPORT \S+ rule=(\S+) at (\S+) (.*)$", out, re.M)
    err = re.findall(r"^ANALYSIS-ERROR.*", out, re.M)
    return prop, rc, [(r, w, t[:160]) for r, w, t in reps], err[:1]


def main():
    man = json.load(open("/verif/MANIFEST.json"))
    props = [c["property_id"] for c in man["checks"]]
    only = sys.argv[1:]
    rc, st = sh("git status --short", cwd="/repo")
    assert not [l for l in st.splitlines() if not l.startswith("??")], "repo not clean"
    results = {}
    rp = os.path.join(ROOT, "RESULTS.json")
    if os.path.exists(rp) and only:
        results = json.load(open(rp))
    for name in sorted(os.listdir(ROOT)):
        d = os.path.join(ROOT, name)
        if not os.path.isdir(d) or (only and name not in only):
            continue
        patch = os.path.join(d, "patch.diff")
        rc, out = sh("git apply --check %s" % patch, cwd="/repo")
        if rc != 0:
            results[name] = {"status": "does-not-apply"}
            print(name, "DOES NOT APPLY")
            continue
        sh("git apply %s" % patch, cwd="/repo")
        try:
            with ThreadPoolExecutor(8) as ex:
                rs = list(ex.map(run_check, props))
        finally:
            sh("git checkout -- .", cwd="/repo")
        alarms = {p: r for p, rc_, r, e in rs if rc_ == 1}
        undecided = {p: e for p, rc_, r, e in rs if rc_ not in (0, 1)}
        results[name] = {"status": "false-alarm" if alarms else ("undecided" if undecided else "silent"), "alarms": alarms, "undecided": undecided}
        print("%-8s %-12s %s %s" % (name, results[name]["status"], json.dumps(alarms)[:300] if alarms else "", json.dumps(undecided)[:300] if undecided else ""))
    json.dump(results, open(rp, "w"), indent=1, sort_keys=True)
    n = len(results)
    print("refactorings: %d, silent: %d, false alarms: %d, undecided: %d" % (
        n, sum(v["status"] == "silent" for v in results.values()), sum(v["status"] == "false-alarm" for v in results.values()),
        sum(v["status"] == "undecided" for v in results.values())))


if __name__ == "__main__":
    main()
