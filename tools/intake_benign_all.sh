#!/bin/bash
# usage: intake_benign_all.sh <wave dir> <tag>   intake every finished benign set that is not filed yet (3 slots)   (development helper)
W=${1:-/tmp/wtb}; T=${2:-}
todo=()
for d in $W/C*/; do id=$(basename $d); [ -f $d/seed_out/meta_D.json ] || continue; [ -d /verif/benign/$id-${T}A ] || [ -d /verif/benign/$id-${T}B ] || [ -d /verif/benign/$id-${T}C ] || [ -d /verif/benign/$id-${T}D ] && continue; todo+=($id); done
echo "todo: ${todo[*]}"
i=0
for id in "${todo[@]}"; do
  i=$((i+1))
  ( BENIGN_TAG=$T INTAKE_WT=/tmp/intake_wt_b$i /venv/bin/python /verif/tools/intake_benign.py $W/$id/seed_out $id ) > /tmp/ib_$id.log 2>&1 &
  if [ $((i % 3)) -eq 0 ]; then wait; fi
done
wait
for id in "${todo[@]}"; do cat /tmp/ib_$id.log; done
