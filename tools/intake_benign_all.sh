#!/bin/bash
# intake every finished benign set under /tmp/wtb that is not filed yet (3 slots)   (development helper)
todo=()
for d in /tmp/wtb/C*/; do id=$(basename $d); [ -f $d/seed_out/meta_D.json ] || [ -f $d/seed_out/D.diff ] || continue; [ -d /verif/benign/$id-A ] || [ -d /verif/benign/$id-B ] || [ -d /verif/benign/$id-D ] && continue; todo+=($id); done
echo "todo: ${todo[*]}"
i=0
for id in "${todo[@]}"; do
  slot=$((i % 3)); i=$((i+1))
  ( INTAKE_WT=/tmp/intake_wt_b$slot$i /venv/bin/python /verif/tools/intake_benign.py /tmp/wtb/$id/seed_out $id ) > /tmp/ib_$id.log 2>&1 &
  if [ $((i % 3)) -eq 0 ]; then wait; fi
done
wait
for id in "${todo[@]}"; do cat /tmp/ib_$id.log; done
