#!/venv/bin/python
"""Apply each confirmed seeded defect to /repo (git apply), run every claimed quick check, undo
(git checkout -- .), and record which rules reported it.  Writes /verif/seeded/RESULTS.json.
Development helper (never part of a registered check)."""
import json
import os
import re
import subprocess
import sys
from concurrent.futures import ThreadPoolExecutor

SEEDED = "/verif/seeded"


def sh(cmd, cwd=None):
    p = subprocess.run(cmd, shell=True, cwd=cwd, capture_output=True, text=True)
    return p.returncode, p.stdout + p.stderr


def run_check(prop):
    rc, out = sh("/venv/bin/python /verif/sa/check.py %s --tier quick" % prop)
    rules = sorted(set(re.findall(r"^REPORT \S+ rule=(\S+)", out, re.M)))
    err = re.findall(r"^ANALYSIS-ERROR.*", out, re.M)
    return prop, rc, rules, err[:1]


def main():
    man = json.load(open("/verif/MANIFEST.json"))
    props = [c["property_id"] for c in man["checks"]]
    only = sys.argv[1:]
    rc, st = sh("git status --short", cwd="/repo")
    assert not [l for l in st.splitlines() if not l.startswith("??")], "repo not clean"
    results = {}
    if os.path.exists(os.path.join(SEEDED, "RESULTS.json")) and only:
        results = json.load(open(os.path.join(SEEDED, "RESULTS.json")))
    for name in sorted(os.listdir(SEEDED)):
        d = os.path.join(SEEDED, name)
        if not os.path.isdir(d) or (only and name not in only):
            continue
        patch = os.path.join(d, "patch.diff")
        rc, out = sh("git apply --check %s" % patch, cwd="/repo")
        if rc != 0:
            results[name] = {"status": "does-not-apply"}
            print(name, "DOES NOT APPLY")
            continue
        sh("git apply %s" % patch, cwd="/repo")
        try:
            with ThreadPoolExecutor(8) as ex:
                rs = list(ex.map(run_check, props))
        finally:
            sh("git checkout -- .", cwd="/repo")
        own = name.split("-")[0]
        caught = {p: r for p, rc_, r, e in rs if rc_ == 1}
        errors = {p: e for p, rc_, r, e in rs if rc_ == 2}
        results[name] = {"status": "caught" if caught else ("analysis-error" if errors else "missed"),
                         "own_property_check_caught": own in caught, "caught_by": caught, "analysis_errors": errors}
        print("%-7s %-14s own=%-5s %s %s" % (name, results[name]["status"], own in caught, caught, errors if errors else ""))
    json.dump(results, open(os.path.join(SEEDED, "RESULTS.json"), "w"), indent=1, sort_keys=True)
    n = len(results)
    print("seeds: %d, caught: %d, caught by own property's check: %d" % (
        n, sum(1 for r in results.values() if r["status"] == "caught"), sum(1 for r in results.values() if r.get("own_property_check_caught"))))


if __name__ == "__main__":
    main()
