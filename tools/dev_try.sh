#!/bin/bash
# usage: dev_try.sh <benign-or-seed patch path | benign name> <prop>...   apply to the scratch worktree /tmp/dev_wt (not /repo), run quick checks, leave applied
n="$1"; shift
p="$n"; [ -f "$p" ] || p=/verif/benign/$n/patch.diff; [ -f "$p" ] || p=/verif/seeded/$n/patch.diff
[ -d /tmp/dev_wt ] || git -C /repo worktree add --detach /tmp/dev_wt HEAD >/dev/null 2>&1
git -C /tmp/dev_wt checkout -q -- . && git -C /tmp/dev_wt clean -fdq && git -C /tmp/dev_wt apply "$p" || exit 3
for c in "$@"; do VERIF_REPO=/tmp/dev_wt /venv/bin/python /verif/sa/check.py $c --tier quick --no-write 2>&1 | grep -v "^  rule"; done
