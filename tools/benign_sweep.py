#!/venv/bin/python
"""Robustness sweep (development helper): run every claimed check on behaviour-preserving rewrites of the whole tree, in memory:
  unparse   every module re-generated with ast.unparse (drops comments, reformats, renumbers every line)
  docstrip  every docstring removed
  rename    every function-local variable of spydrnet/ir, plugins, util, composers, parsers renamed (v -> v_)
The checks must report nothing new on any of them."""
import ast
import os
import sys

sys.path.insert(0, "/verif")
from sa.core import Program, REPO, AnalysisError  # noqa: E402
from sa.check import run_property  # noqa: E402
from sa.rules import load_all  # noqa: E402


def all_sources():
    P = Program()
    return {rel: m.src for rel, m in P.modules.items()}


def t_unparse(src):
    return ast.unparse(ast.parse(src)) + "\n"


def t_docstrip(src):
    t = ast.parse(src)
    for n in ast.walk(t):
        if isinstance(n, (ast.FunctionDef, ast.ClassDef, ast.Module)) and n.body and isinstance(n.body[0], ast.Expr) \
                and isinstance(n.body[0].value, ast.Constant) and isinstance(n.body[0].value.value, str):
            n.body = n.body[1:] or [ast.Pass()]
    return ast.unparse(t) + "\n"


class _Renamer(ast.NodeTransformer):
    def visit_FunctionDef(self, node):
        params = {a.arg for a in node.args.args + node.args.kwonlyargs + node.args.posonlyargs}
        if node.args.vararg:
            params.add(node.args.vararg.arg)
        if node.args.kwarg:
            params.add(node.args.kwarg.arg)
        nested = any(isinstance(x, (ast.FunctionDef, ast.Lambda, ast.ClassDef, ast.Global, ast.Nonlocal)) for x in ast.walk(node) if x is not node)
        if nested:
            return node
        stores = {n.id for n in ast.walk(node) if isinstance(n, ast.Name) and isinstance(n.ctx, ast.Store)} - params
        # comprehension targets are their own scope: leave them
        comp = {n.id for c in ast.walk(node) if isinstance(c, (ast.ListComp, ast.SetComp, ast.GeneratorExp, ast.DictComp)) for g in c.generators for n in ast.walk(g.target) if isinstance(n, ast.Name)}
        stores -= comp
        for n in ast.walk(node):
            if isinstance(n, ast.Name) and n.id in stores:
                n.id = n.id + "_"
        return node


def t_rename(src):
    t = ast.parse(src)
    _Renamer().visit(t)
    return ast.unparse(t) + "\n"


def main():
    load_all()
    import json
    props = [c["property_id"] for c in json.load(open("/verif/MANIFEST.json"))["checks"]]
    srcs = all_sources()
    base = {}
    for p in props:
        rc, run = run_property(p, write=False, quiet=True)
        base[p] = {f.full_key for f in run.findings}
    bad = 0
    for tname, tf in (("unparse", t_unparse), ("docstrip", t_docstrip), ("rename", t_rename)):
        ov = {}
        for rel, s in srcs.items():
            try:
                ov[rel] = tf(s)
            except Exception as ex:
                print("skip", rel, ex)
        for p in props:
            try:
                rc, run = run_property(p, program=Program(overlay=ov), write=False, quiet=True)
                new = sorted({f.full_key for f in run.findings} - base[p])
                gone = sorted(base[p] - {f.full_key for f in run.findings})
                status = "ok" if not new else "NEW"
                err = ""
            except AnalysisError as ex:
                new, gone, status, err = [], [], "ANALYSIS-ERROR", str(ex)[:200]
            if status != "ok" or gone:
                bad += 1
                print("%-9s %s %s new=%s gone=%s %s" % (tname, p, status, new[:3], gone[:3], err))
        print("transformation %s done" % tname)
    print("problems:", bad)


if __name__ == "__main__":
    main()
