#!/venv/bin/python
"""Parallel evaluation of confirmed patches (seeded defects or benign refactorings) against every claimed quick check.

Each worker owns a scratch worktree of /repo under /tmp (removed at the end), applies one patch there, runs the checks with
VERIF_REPO pointing at it (--no-write: evidence/ is left alone), and restores the tree.  /repo itself is never touched, so checks and
edits can go on meanwhile.  Development helper (never part of a registered check).

usage: eval_par.py seeded|benign [names…]"""
import json
import os
import queue
import re
import subprocess
import sys
import threading
from concurrent.futures import ThreadPoolExecutor

WORKERS = 5
THREADS = 3


def sh(cmd, cwd=None, env=None):
    p = subprocess.run(cmd, shell=True, cwd=cwd, capture_output=True, text=True, env=env)
    return p.returncode, p.stdout + p.stderr


def run_check(args):
    prop, wt = args
    env = dict(os.environ, VERIF_REPO=wt)
    rc, out = sh("/venv/bin/python /verif/sa/check.py %s --tier quick --no-write" % prop, env=env)
    reps = re.findall(r"^REPORT \S+ rule=(\S+) at (\S+) (.*)$", out, re.M)
    err = re.findall(r"^ANALYSIS-ERROR.*", out, re.M)
    return prop, rc, [(r, w, t[:160]) for r, w, t in reps], err[:1]


def main():
    kind = sys.argv[1]
    root = "/verif/" + kind
    only = sys.argv[2:]
    man = json.load(open("/verif/MANIFEST.json"))
    props = [c["property_id"] for c in man["checks"]]
    rp = os.path.join(root, "RESULTS.json")
    results = json.load(open(rp)) if (os.path.exists(rp) and only) else {}
    names = [n for n in sorted(os.listdir(root)) if os.path.isdir(os.path.join(root, n)) and (not only or n in only)]
    q = queue.Queue()
    for n in names:
        q.put(n)
    lock = threading.Lock()

    def worker(i):
        wt = "/tmp/evw_%d_%d" % (os.getpid(), i)
        sh("git -C /repo worktree add --detach %s HEAD" % wt)
        try:
            while True:
                try:
                    name = q.get_nowait()
                except queue.Empty:
                    return
                patch = os.path.join(root, name, "patch.diff")
                rc, out = sh("git apply --check %s" % patch, cwd=wt)
                if rc != 0:
                    with lock:
                        results[name] = {"status": "does-not-apply"}
                        print(name, "DOES NOT APPLY", flush=True)
                    continue
                sh("git apply %s" % patch, cwd=wt)
                try:
                    with ThreadPoolExecutor(THREADS) as ex:
                        rs = list(ex.map(run_check, [(p, wt) for p in props]))
                finally:
                    sh("git checkout -- . && git clean -fdq", cwd=wt)
                with lock:
                    if kind == "seeded":
                        own = name.split("-")[0]
                        caught = {p: sorted({r for r, w, t in rep}) for p, rc_, rep, e in rs if rc_ == 1}
                        errors = {p: e for p, rc_, rep, e in rs if rc_ not in (0, 1)}
                        results[name] = {"status": "caught" if caught else ("analysis-error" if errors else "missed"),
                                         "own_property_check_caught": own in caught, "caught_by": caught, "analysis_errors": errors}
                        print("%-8s %-14s own=%-5s %s %s" % (name, results[name]["status"], own in caught, caught, errors if errors else ""), flush=True)
                    else:
                        alarms = {p: rep for p, rc_, rep, e in rs if rc_ == 1}
                        undecided = {p: e for p, rc_, rep, e in rs if rc_ not in (0, 1)}
                        results[name] = {"status": "false-alarm" if alarms else ("undecided" if undecided else "silent"), "alarms": alarms, "undecided": undecided}
                        print("%-8s %-12s %s %s" % (name, results[name]["status"], json.dumps(alarms)[:300] if alarms else "",
                                                    json.dumps(undecided)[:300] if undecided else ""), flush=True)
        finally:
            sh("git -C /repo worktree remove --force %s; git -C /repo worktree prune" % wt)
    ts = [threading.Thread(target=worker, args=(i,)) for i in range(WORKERS)]
    for t in ts:
        t.start()
    for t in ts:
        t.join()
    json.dump(results, open(rp, "w"), indent=1, sort_keys=True)
    n = len(results)
    if kind == "seeded":
        print("seeds: %d, caught: %d, caught by own property's check: %d, analysis-error only: %d" % (
            n, sum(1 for r in results.values() if r["status"] == "caught"), sum(1 for r in results.values() if r.get("own_property_check_caught")),
            sum(1 for r in results.values() if r["status"] == "analysis-error")))
    else:
        print("refactorings: %d, silent: %d, false alarms: %d, undecided: %d" % (
            n, sum(v["status"] == "silent" for v in results.values()), sum(v["status"] == "false-alarm" for v in results.values()),
            sum(v["status"] == "undecided" for v in results.values())))


if __name__ == "__main__":
    main()
