#!/venv/bin/python
"""Run the repository's baseline test command on a tree and compare with
/root/.vp/BASELINE.json stable_pass.  Development helper, not a check.
usage: baseline.py [repo_dir]"""
import json, subprocess, sys, tempfile, os, xml.etree.ElementTree as ET
repo = sys.argv[1] if len(sys.argv) > 1 else "/repo"
base = json.load(open("/root/.vp/BASELINE.json"))
out = tempfile.mktemp(suffix=".xml")
cmd = ["/venv/bin/python", "-m", "pytest", "-ra", "-q", "-p", "no:cacheprovider",
       "--timeout=900", "--continue-on-collection-errors", "--junitxml=" + out, "-n", "8"]
p = subprocess.run(cmd, cwd=repo, capture_output=True, text=True)
def collect(path):
    got = set()
    for tc in ET.parse(path).getroot().iter("testcase"):
        bad = any(c.tag in ("failure", "error", "skipped") for c in tc)
        if not bad:
            got.add(tc.get("classname") + "::" + tc.get("name"))
    os.unlink(path)
    return got


passed = collect(out)
want = set(base["stable_pass"])
missing = sorted(want - passed)
if missing:
    # several Verilog parser tests create ./test_netlist.v and race under xdist: rerun the missing
    # tests' files serially before believing the failure
    files = sorted({m.split("::")[0].rsplit(".", 1)[0].replace(".", "/") + ".py" for m in missing})
    cmd2 = [c for c in cmd if c not in ("-n", "8") and not c.startswith("--junitxml")] + ["--junitxml=" + out] + files
    subprocess.run(cmd2, cwd=repo, capture_output=True, text=True)
    passed |= collect(out)
    missing = sorted(want - passed)
print("stable_pass:", len(want), "passing now:", len(want & passed), "missing:", len(missing))
for m in missing[:40]:
    print("  MISSING", m)
sys.exit(1 if missing else 0)
