#!/venv/bin/python
"""Regenerate /verif/MANIFEST.json from the rule registry (claimed = a check is registered).
Development helper; the manifest itself is committed."""
import json
import os
import sys

sys.path.insert(0, os.path.dirname(os.path.dirname(os.path.abspath(__file__))))
from sa.rules import load_all  # noqa: E402

TECH = {
    "C01": "static analysis: effect/typestate dataflow over a statement CFG of every IR mutator (pairing, guards, who-may-write, views, layering)",
    "C02": "static analysis: interprocedural effect summaries + must/may dataflow for mirror updates of outer pins and reference sets",
    "C03": "static analysis: abstract emission simulation of the EDIF composer (paren balance, construct nesting) vs parser dispatch tables",
    "C04": "static analysis: delimiter-balance dataflow over the Verilog composer + token/metadata-key table agreement with the parser",
    "C07": "static analysis: clone pointer-closure dataflow (copied-through fields vs memo remaps), slot coverage, source-immutability effects",
    "C08": "static analysis: must-pass / ordering dataflow over the CFG of uniquify's work list, clone placement and re-pointing, fresh-name counter discipline",
    "C09": "static analysis: must-pass / ordering dataflow over the CFG of flatten's work list, paired-queue agreement, snapshot iteration, disconnect/connect pairing",
    "C10": "static analysis: handler-coverage / check-before-update dataflow / case-fold taint / schema-table agreement over the namespace plugin",
    "C11": "static analysis: factory-only construction, immutability, kind inference of hierarchical-reference chains, naming-convention agreement",
    "C12": "static analysis: kind inference (abstract interpretation) of hierarchical-reference chains at closure sites + Selection exhaustiveness",
    "C13": "static analysis: call-site argument plumbing, option-table agreement, yield-guard dataflow, matcher case/meta-character agreement",
    "C14": "static analysis: CHECK->NOTIFY->WRITE typestate dataflow (statement CFG + interprocedural effect summaries) over every IR mutator",
    "C15": "static analysis: exception-aware CFG dataflow (policy restore on all exits), loop-progress must-consume summaries, not-found guards, handler discipline",
    "C16": "static analysis: effect allow-list over the composers' call graph, open/close pairing dataflow, nondeterminism-source scan",
    "C17": "static analysis: abstract evaluation of the writer's character predicates over the ASCII domain vs the reader's regex class; case-fold taint",
    "C18": "static analysis: directive / category / metadata-key table agreement between EBLIF parser and composer, .model/.end pairing",
    "C19": "static analysis: must-notified dataflow before every relation write (interprocedural), pending-announcement typestate, exhaustive wiring-table agreement",
    "C20": "static analysis: two-sided taint of comparer operands (orig vs composer side) + required-comparison coverage",
}

NA = {
    "C05": "faithfulness of the EDIF reader is equality with an external abstract model over runtime values (indices, identifiers, merge positions); no structural witness exists in the source. Its structural parts are claimed under C15 (dangling references rejected), C03 (nesting agreement) and C01 (public-API-only construction).",
    "C06": "faithfulness of the Verilog reader: bit placement after slicing/concatenation/late resizing is a runtime quantity with no static witness; its structural parts are claimed under C15 and C01.",
    "C08": "design preservation and per-path uniqueness after uniquify are graph properties of runtime netlists with no pairing/ordering/ownership form; 'stays well-formed' is covered by C01/C02 rule O4 (public API only).",
    "C09": "electrical equivalence and leaf correspondence after flatten need an elaboration oracle; nothing in the code's shape decides them; 'stays well-formed' is covered by C01 rule O4.",
}

LEVEL_NOTE = ("Decides named structural clauses that are necessary conditions of the property, on every path of the current "
              "source; does not decide the behaviour as a whole. Trusted base: Python's ast module, the analysis engine in "
              "/verif/sa, the reviewed relation table (DESIGN §1.1) and the per-rule reviewed tables listed in DESIGN. "
              "Assumes asserts enabled, no IR-overriding extension plugin, callers use the public API.")


def main():
    reg = load_all()
    props = [json.loads(l) for l in open(os.path.join(os.path.dirname(__file__), "..", "properties.jsonl"))]
    checks = []
    na = []
    for p in props:
        pid = p["id"]
        if pid in reg:
            fn, expl, assumptions, exhaustive = reg[pid]
            checks.append({
                "property_id": pid,
                "quick_cmd": "/venv/bin/python /verif/sa/check.py %s --tier quick" % pid,
                "thorough_cmd": "/venv/bin/python /verif/sa/check.py %s --tier thorough" % pid,
                "evidence_file": "/verif/evidence/%s.json" % pid,
                "replay_cmd_template": "/venv/bin/python /verif/sa/check.py --replay {path}",
                "engine": "sa",
                "level_claimed": {"category": "other", "text": expl, "design_ref": "DESIGN.md §3 %s" % pid},
                "level_note": LEVEL_NOTE,
                "technique": TECH[pid],
            })
        else:
            na.append({"property_id": pid, "reason": NA.get(pid, "check not built yet in this round (see DESIGN.md §3 %s for the planned clauses)" % pid)})
    man = {
        "version": 1,
        "setup_cmd": "/venv/bin/python /verif/sa/selfcheck.py --setup",
        "hooks": {
            "guard": "SPYDRNET_VERIF",
            "enable": "none needed: the checks are static and read /repo's working tree; no instrumentation is compiled in",
            "baseline_off_cmd": "cd /repo && /venv/bin/python -m pytest -ra -q -p no:cacheprovider --timeout=900 --continue-on-collection-errors",
            "source_commits": [],
            "add_only": True,
        },
        "engines": [{
            "name": "sa",
            "path": "/verif/sa",
            "serves_properties": [c["property_id"] for c in checks],
            "kind_free_text": "repository-specific static analyser: ast loader, statement CFG, forward dataflow, IR kind inference, interprocedural effect summaries, table-agreement rules; pure stdlib, run under /venv/bin/python; nothing from spydrnet is imported or executed",
        }],
        "checks": checks,
        "not_applicable": na,
        "notes": "Static analysis only. exit 0 held / exit 1 VIOLATION / exit 2 ANALYSIS-ERROR (undecided, never a silent pass). Known findings: /verif/known_findings.json. thorough = same rules + in-memory mutant self-test of the rules.",
    }
    out = os.path.join(os.path.dirname(__file__), "..", "MANIFEST.json")
    with open(out, "w") as fh:
        json.dump(man, fh, indent=1)
    print("claimed:", [c["property_id"] for c in checks])
    print("not applicable:", [n["property_id"] for n in na])


if __name__ == "__main__":
    main()
