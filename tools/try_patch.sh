#!/bin/bash
# usage: try_patch.sh <patch.diff> <prop> [<prop>...]   — apply to /repo, run the quick checks, undo.
p="$1"; shift
cd /repo || exit 2
if ! git apply --check "$p" 2>/dev/null; then echo "PATCH-DOES-NOT-APPLY $p"; exit 3; fi
git apply "$p"
for id in "$@"; do
  /venv/bin/python /verif/sa/check.py "$id" --tier quick 2>&1 | grep -E "^(REPORT|VIOLATION|ANALYSIS-ERROR|C[0-9]+ tier)" | cut -c1-400
done
git checkout -- . ; git status --short | grep -v '^??' | head
