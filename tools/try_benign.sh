#!/bin/bash
# usage: try_benign.sh <name> <prop>...   apply /verif/benign/<name>/patch.diff to /repo, run the quick checks, undo
n="$1"; shift
/verif/tools/try_patch.sh /verif/benign/$n/patch.diff "$@"
